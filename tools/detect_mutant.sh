#!/bin/bash
# detect_mutant.sh <seeded-id> <PROPERTY> [tier]   (run only when no other check uses /repo)
# Applies seeded/<id>/patch.diff to /repo, runs the property's check, restores /repo, and records
# the outcome in seeded/<id>/meta.json.
set -u
ID=$1; PROP=$2; TIER=${3:-quick}
cd /verif
git -C /repo diff --quiet || { echo "/repo has local modifications, refusing"; exit 2; }
git -C /repo apply /verif/seeded/$ID/patch.diff || { echo "patch does not apply"; exit 2; }
START=$(date +%s)
./check $PROP --tier $TIER > /tmp/detect-$ID-$PROP.log 2>&1; RC=$?
git -C /repo checkout -- . 
END=$(date +%s)
VIOL=$(grep -c "^VIOLATION" /tmp/detect-$ID-$PROP.log)
FIRST=$(grep -A1 "^VIOLATION" /tmp/detect-$ID-$PROP.log | sed -n 2p | sed 's/^ *//' | cut -c1-160)
echo "[$ID] check $PROP/$TIER rc=$RC violations=$VIOL wall=$((END-START))s :: $FIRST"
python3 - "$ID" "$PROP" "$TIER" "$RC" "$VIOL" "$FIRST" "$((END-START))" <<'PY'
import json,sys
id,prop,tier,rc,viol,first,wall=sys.argv[1:8]
p='/verif/seeded/%s/meta.json'%id
d=json.load(open(p))
d.setdefault('detected_by',{})['%s/%s'%(prop,tier)]={"exit_code":int(rc),"violation_lines":int(viol),"first_failed_assertion":first,"wall_s":int(wall),
  "detected": int(rc)==1 and int(viol)>0}
json.dump(d,open(p,'w'),indent=1)
PY
rm -f /verif/replay/*.json
