#!/bin/bash
# confirm_mutant.sh <id> <patch.diff> <demo.c> <property> "<needs>"
# Confirms a seeded change in a scratch worktree: applies, builds, the pinned test suite still
# passes, the demonstration passes without and fails with the change.  Stores it under seeded/<id>/.
set -u
ID=$1; PATCH=$(readlink -f $2); DEMO=$(readlink -f $3); PROP=$4; NEEDS=${5:-}
WT=/tmp/mt-$ID
OUT=/verif/seeded/$ID
rm -rf $WT; git -C /repo worktree prune
git -C /repo worktree add -q --detach $WT HEAD || exit 2
cd $WT
SRCS=$(find src -name '*.c' | grep -v lib_advanced | grep -v "${DEMO_EXCLUDE:-@@none@@}")
cmake -S . -B _build -G Ninja >/dev/null 2>&1 && cmake --build _build >/dev/null 2>&1   # generates of_build_config.h too
gcc -O1 -g -w ${DEMO_CFLAGS:-} -DOPENFEC_LITTLE_ENDIAN -DNDEBUG -I . -I src $DEMO $SRCS -lm -o /tmp/mt-$ID-demo-orig || { echo "demo does not compile on original"; exit 2; }
ASAN_OPTIONS=detect_leaks=1 timeout 600 /tmp/mt-$ID-demo-orig ${DEMO_ARGS:-} >/tmp/mt-$ID-orig.out 2>&1; RC_ORIG=$?
git apply $PATCH 2>/dev/null || git apply -3 $PATCH || { echo "PATCH DOES NOT APPLY to current HEAD"; git -C /repo worktree remove --force $WT; exit 3; }
cmake --build _build >/tmp/mt-$ID-build.log 2>&1 || { echo "does not build"; exit 2; }
TESTS=$(ctest --test-dir _build -j8 --timeout 900 2>&1 | grep "tests passed" )
gcc -O1 -g -w ${DEMO_CFLAGS:-} -DOPENFEC_LITTLE_ENDIAN -DNDEBUG -I . -I src $DEMO $SRCS -lm -o /tmp/mt-$ID-demo-mut || { echo "demo does not compile on mutant"; exit 2; }
ASAN_OPTIONS=detect_leaks=1 timeout 600 /tmp/mt-$ID-demo-mut ${DEMO_ARGS:-} >/tmp/mt-$ID-mut.out 2>&1; RC_MUT=$?
echo "[$ID] demo original rc=$RC_ORIG, with change rc=$RC_MUT, tests: $TESTS"
OK=0
if [ $RC_ORIG -eq 0 ] && [ $RC_MUT -ne 0 ] && echo "$TESTS" | grep -q "100% tests passed, 0 tests failed out of 265"; then OK=1; fi
if [ $OK -eq 1 ]; then
  mkdir -p $OUT
  git diff -- src applis > $OUT/patch.diff
  cp $DEMO $OUT/demo.c
  python3 - "$ID" "$PROP" "$NEEDS" "$RC_ORIG" "$RC_MUT" "$TESTS" "$(git -C /repo rev-parse --short HEAD)" <<'PY'
import json,sys
id,prop,needs,ro,rm,tests,head=sys.argv[1:8]
json.dump({"id":id,"breaks_property":prop,"needs_to_manifest":needs,
 "confirmed":{"base_commit":head,"demo_rc_original":int(ro),"demo_rc_with_change":int(rm),"test_suite_with_change":tests.strip(),
   "how":"tools/confirm_mutant.sh: fresh worktree of /repo HEAD, git apply, cmake build, ctest (265), demo compiled against the sources with and without the change"},
 "detected_by":{}}, open('/verif/seeded/%s/meta.json'%id,'w'), indent=1)
PY
  echo "[$ID] CONFIRMED -> $OUT"
else
  echo "[$ID] NOT CONFIRMED"; tail -5 /tmp/mt-$ID-mut.out
fi
cd /; git -C /repo worktree remove --force $WT; rm -f /tmp/mt-$ID-demo-orig /tmp/mt-$ID-demo-mut
exit $((1-OK))
