#!/usr/bin/env python3
"""Writes seeded/RESULTS.md from seeded/*/meta.json."""
import glob
import json
import os

rows = []
for p in sorted(glob.glob('/verif/seeded/*/meta.json')):
    m = json.load(open(p))
    det = m.get('detected_by', {})
    cells = []
    for k, v in sorted(det.items()):
        cells.append("%s: %s%s" % (k, "CAUGHT" if v.get('detected') else "missed (exit %s)" % v.get('exit_code'),
                                   (" — `" + v['first_failed_assertion'][:90] + "`") if v.get('first_failed_assertion') else ""))
    rows.append((m['id'], m['breaks_property'], m['needs_to_manifest'], "<br>".join(cells) or "not run yet", m.get('note', '')))
with open('/verif/seeded/RESULTS.md', 'w') as f:
    f.write("# Seeded changes and which check catches them\n\n")
    f.write("Each change was produced by a sub-agent that saw only the property text, compiles, passes the 265 pinned tests and\n"
            "was re-confirmed with `tools/confirm_mutant.sh` (demo passes without / fails with the change). Detection =\n"
            "`tools/detect_mutant.sh`: patch applied to /repo, the property's check run, /repo restored; CAUGHT means exit 1 with a\n"
            "`VIOLATION` line whose counterexample reproduced natively.\n\n")
    f.write("| id | property | needs to manifest | check result | note |\n|---|---|---|---|---|\n")
    for r in rows:
        f.write("| %s | %s | %s | %s | %s |\n" % r)
    caught = sum(1 for r in rows if 'CAUGHT' in r[3])
    f.write("\n%d changes, %d caught by at least one tier.\n" % (len(rows), caught))
print(open('/verif/seeded/RESULTS.md').read()[-300:])
