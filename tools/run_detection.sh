#!/bin/bash
# Runs tools/detect_mutant.sh for every confirmed seeded change against its owning property (quick tier),
# sequentially, /repo restored after each.  Usage: tools/run_detection.sh [id-prefix ...]
cd /verif
for d in seeded/*/; do
  id=$(basename $d)
  [ -f $d/meta.json ] || continue
  if [ $# -gt 0 ]; then m=0; for p in "$@"; do case $id in $p*) m=1;; esac; done; [ $m -eq 1 ] || continue; fi
  prop=$(python3 -c "import json;print(json.load(open('$d/meta.json'))['breaks_property'])")
  tools/detect_mutant.sh $id $prop quick
done
tools/mutant_report.py > /dev/null
