"""Core machinery: build /repo with goto-cc, run CBMC queries in a pool, classify
results, replay counterexamples natively, write evidence.

Nothing here is property specific; see lib/props/*.py for the query grids.
"""
import atexit
import concurrent.futures as cf
import hashlib
import json
import os
import re
import resource
import shutil
import signal
import subprocess
import sys
import tempfile
import threading
import time

VERIF = os.path.dirname(os.path.dirname(os.path.abspath(__file__)))
REPO = os.environ.get("VERIF_REPO", "/repo")
HARNESS = os.path.join(VERIF, "harness")
EVID = os.path.join(VERIF, "evidence")
REPLAY = os.path.join(VERIF, "replay")

BASE_DEFS = ["-DOPENFEC_LITTLE_ENDIAN", "-DNDEBUG", "-DOPENFEC_VERIF"]
SRC_EXCLUDE = ("lib_advanced",)

# The four GF multiply-accumulate kernels (DESIGN 3.4) and their goto symbol names.
RS28_C = "src/lib_stable/reed-solomon_gf_2_8/of_reed-solomon_gf_2_8.c"
KERNELS = [
    "of_galois_field_2_8_addmul1",
    "of_galois_field_2_4_addmul1",
    "of_galois_field_2_4_addmul1_compact",
    "__CPROVER_file_local_of_reed_solomon_gf_2_8_c_of_addmul1",
]

_scratch = None
_lock = threading.Lock()
_built = {}
_build_locks = {}


def scratch():
    global _scratch
    if _scratch is None:
        base = os.environ.get("VERIF_SCRATCH_BASE") or tempfile.gettempdir()
        _scratch = tempfile.mkdtemp(prefix="ofverif-", dir=base)
        atexit.register(lambda: shutil.rmtree(_scratch, ignore_errors=True))
    return _scratch


def lib_sources():
    out = []
    for root, _dirs, files in os.walk(os.path.join(REPO, "src")):
        if any(x in root for x in SRC_EXCLUDE):
            continue
        for f in sorted(files):
            if f.endswith(".c"):
                out.append(os.path.join(root, f))
    return sorted(out)


def sh(cmd, **kw):
    return subprocess.run(cmd, stdout=subprocess.PIPE, stderr=subprocess.PIPE, text=True, **kw)


def source_fingerprint():
    h = hashlib.sha256()
    for f in lib_sources():
        h.update(f.encode())
        h.update(open(f, "rb").read())
    for root, _d, files in os.walk(os.path.join(REPO, "src")):
        for f in sorted(files):
            if f.endswith(".h"):
                h.update(open(os.path.join(root, f), "rb").read())
    return h.hexdigest()[:16]


def build_lib(defs=(), remove=(), exclude=()):
    """goto-cc every library translation unit of /repo's working tree with the real
    build's flags + hooks, link them, optionally strip function bodies.
    Returns the path of the linked goto binary.  Cached per (defs, remove) per run."""
    key = (tuple(defs), tuple(remove), tuple(exclude))
    with _lock:
        if key in _built:
            return _built[key]
        lk = _build_locks.setdefault(key, threading.Lock())
    with lk:
        with _lock:
            if key in _built:
                return _built[key]
        d = os.path.join(scratch(), "lib-" + hashlib.md5(repr(key).encode()).hexdigest()[:10])
        os.makedirs(d, exist_ok=True)
        procs = []
        objs = []
        for src in lib_sources():
            if exclude and exclude[0] == "ONLY":
                if os.path.basename(src) not in exclude[1:]:
                    continue
            elif any(e in src for e in exclude):
                continue
            o = os.path.join(d, os.path.basename(src)[:-2] + ".gb")
            objs.append(o)
            cmd = ["goto-cc", "-c", "--export-file-local-symbols"] + BASE_DEFS + list(defs) + [src, "-o", o]
            procs.append((src, subprocess.Popen(cmd, stdout=subprocess.PIPE, stderr=subprocess.PIPE, text=True)))
        for src, p in procs:
            out, err = p.communicate()
            if p.returncode != 0:
                raise RuntimeError("goto-cc failed on %s:\n%s" % (src, err[-3000:]))
        lib = os.path.join(d, "lib.gb")
        r = sh(["goto-cc", "-o", lib] + objs)
        if r.returncode != 0:
            raise RuntimeError("goto-cc link failed:\n" + r.stderr[-3000:])
        if remove:
            lib2 = os.path.join(d, "lib-stripped.gb")
            cmd = ["goto-instrument"]
            for f in remove:
                cmd += ["--remove-function-body", f]
            r = sh(cmd + [lib, lib2])
            if r.returncode != 0:
                raise RuntimeError("goto-instrument failed:\n" + r.stderr[-3000:])
            lib = lib2
        with _lock:
            _built[key] = lib
        return lib


class Query:
    def __init__(self, prop, harness, params, name=None, lib_defs=(), remove=(), lib_exclude=(),
                 extra_src=(), unwind=64, unwindset=None, flags=(), timeout=600, mem_gb=12,
                 free_bits=0, leak=True, include_repo_c=None, sample=None, solver="kissat",
                 expect_known=None, native_defs=()):
        self.prop = prop
        self.harness = harness
        self.params = dict(params)
        self.lib_defs = tuple(lib_defs)
        self.remove = tuple(remove)
        self.lib_exclude = tuple(lib_exclude)
        self.extra_src = tuple(extra_src)
        self.unwind = unwind
        self.unwindset = unwindset
        self.flags = tuple(flags)
        self.timeout = timeout
        self.mem_gb = mem_gb
        self.free_bits = free_bits
        self.leak = leak
        self.solver = solver
        self.native_defs = tuple(native_defs)
        self.name = name or (harness + ":" + ",".join("%s=%s" % (k, short(v)) for k, v in sorted(self.params.items())))
        self.sample = sample

    def key(self):
        return hashlib.md5((self.harness + repr(sorted(self.params.items())) + repr(self.lib_defs) + repr(self.remove) + repr(self.flags)).encode()).hexdigest()[:12]


def short(v):
    s = str(v)
    return s if len(s) <= 24 else s[:10] + ".." + hashlib.md5(s.encode()).hexdigest()[:6]


def write_params(path, params):
    with open(path, "w") as f:
        f.write("/* generated per query */\n")
        for k, v in sorted(params.items()):
            if v is None:
                continue
            if v is True:
                f.write("#define %s 1\n" % k)
            else:
                f.write("#define %s %s\n" % (k, v))


INFO_CLASSES = ("overflow", "undefined-shift", "pointer_arithmetic", "NaN", "conversion")


def classify(pname, desc):
    """Map a CBMC property to one of: witness, unwind, assertion, memory, info."""
    if "WITNESS." in desc:
        return "witness"
    if ".unwind." in pname or "unwinding assertion" in desc:
        return "unwind"
    if ".recursion" in pname or "recursion unwinding" in desc:
        return "unwind"
    if ".assertion." in pname:
        return "assertion"
    if "memory-leak" in pname or "memory_leak" in pname or "dynamically allocated memory never freed" in desc:
        return "memory"
    for c in INFO_CLASSES:
        if ("." + c + ".") in pname:
            return "info"
    if "pointer relation" in desc or "pointer arithmetic" in desc:
        return "info"
    if any(x in pname for x in (".pointer_dereference.", ".bounds.", ".array_bounds.", ".precondition", ".pointer_primitives.", ".pointer.", ".division-by-zero.", ".enum-range-check", ".no-body.")):
        return "memory"
    if "precondition" in pname or "dereference failure" in desc or "free argument" in desc or "double free" in desc:
        return "memory"
    return "memory"


def _limit(mem_gb):
    def f():
        os.setsid()
        lim = int(mem_gb * (1 << 30))
        resource.setrlimit(resource.RLIMIT_AS, (lim, lim))
    return f


def run_proc(cmd, timeout, mem_gb, cwd=None, env=None):
    t0 = time.time()
    p = subprocess.Popen(cmd, stdout=subprocess.PIPE, stderr=subprocess.PIPE, text=True,
                         preexec_fn=_limit(mem_gb), cwd=cwd, env=env)
    try:
        out, err = p.communicate(timeout=timeout)
        to = False
    except subprocess.TimeoutExpired:
        try:
            os.killpg(p.pid, signal.SIGKILL)
        except Exception:
            pass
        out, err = p.communicate()
        to = True
    ru = resource.getrusage(resource.RUSAGE_CHILDREN)
    return p.returncode, out, err, to, time.time() - t0


def cbmc_cmd(q, gb, trace=False):
    cmd = ["cbmc", gb, "--json-ui", "--unwind", str(q.unwind), "--unwinding-assertions",
           "--no-malloc-may-fail", "--drop-unused-functions",
           "--no-signed-overflow-check", "--no-undefined-shift-check",
           "--object-bits", "10"]
    if q.unwindset:
        cmd += ["--unwindset", q.unwindset]
    if q.leak:
        cmd += ["--memory-leak-check"]
    if q.solver == "kissat":
        cmd += ["--external-sat-solver", "kissat"]
    elif q.solver == "cadical":
        cmd += ["--sat-solver", "cadical"]
    cmd += list(q.flags)
    if trace:
        cmd += ["--trace"]
    return cmd


def compile_query(q, qdir, extra_defs=()):
    os.makedirs(qdir, exist_ok=True)
    write_params(os.path.join(qdir, "params.h"), q.params)
    lib = build_lib(q.lib_defs, q.remove, q.lib_exclude)
    gb = os.path.join(qdir, "q.gb")
    hsrc = os.path.join(HARNESS, q.harness)
    cmd = ["goto-cc", "--export-file-local-symbols", "-o", gb] + BASE_DEFS + ["-DVERIF_CBMC"] + list(q.lib_defs) + list(extra_defs) + \
          ["-I", HARNESS, "-I", qdir, "-I", os.path.join(REPO, "src"), "-I", REPO,
           "-include", os.path.join(qdir, "params.h"), hsrc] + list(q.extra_src)
    if lib:
        cmd.append(lib)
    r = sh(cmd)
    if r.returncode != 0:
        raise RuntimeError("harness compile failed (%s):\n%s" % (q.name, r.stderr[-4000:]))
    return gb


def parse_cbmc_json(out):
    try:
        data = json.loads(out)
    except Exception:
        # try to cut to the last complete JSON array
        i = out.find("[")
        try:
            data = json.loads(out[i:])
        except Exception:
            return None, None
    results = None
    msgs = []
    for el in data:
        if isinstance(el, dict):
            if "result" in el:
                results = el["result"]
            if el.get("messageType") == "ERROR":
                msgs.append(el.get("messageText", ""))
    return results, msgs


def run_query(q):
    """Returns dict: verdict in {pass, fail, noverdict, error}, failures, witness_ok, ..."""
    qdir = os.path.join(scratch(), "q-" + q.key())
    res = {"name": q.name, "harness": q.harness, "params": {k: short(v) for k, v in q.params.items()},
           "free_input_bits": q.free_bits, "unwind": q.unwind}
    t0 = time.time()
    try:
        gb = compile_query(q, qdir)
    except Exception as e:
        res.update(verdict="error", detail=str(e), seconds=time.time() - t0)
        return res
    env = dict(os.environ, TMPDIR=qdir)
    rc, out, err, to, secs = run_proc(cbmc_cmd(q, gb), q.timeout, q.mem_gb, cwd=qdir, env=env)
    res["seconds"] = round(time.time() - t0, 2)
    res["solver_seconds"] = round(secs, 2)
    if to:
        res.update(verdict="noverdict", detail="timeout after %ds" % q.timeout)
        _cleanup(qdir)
        return res
    results, msgs = parse_cbmc_json(out)
    if results is None:
        res.update(verdict="noverdict", detail="no result block (rc=%s): %s %s" % (rc, (msgs or [""])[-1][:300], err[-300:]))
        _cleanup(qdir)
        return res
    fails = {"assertion": [], "memory": [], "info": [], "unwind": []}
    witness_ok = False
    nprops = 0
    for r in results:
        pname = r.get("property", "")
        desc = r.get("description", "")
        st = r.get("status", "")
        c = classify(pname, desc)
        if c == "witness":
            witness_ok = witness_ok or (st == "FAILURE")     # any end-of-harness witness reached
            continue
        nprops += 1
        if st == "FAILURE":
            loc = r.get("sourceLocation", {})
            fails[c].append({"property": pname, "description": desc,
                             "where": "%s:%s" % (os.path.basename(loc.get("file", "?")), loc.get("line", "?")),
                             "function": loc.get("function", "?")})
        elif st not in ("SUCCESS",):
            fails["unwind"].append({"property": pname, "description": "status " + st, "where": "?", "function": "?"})
    res["vcs"] = nprops
    res["witness_ok"] = witness_ok
    res["failures"] = fails["assertion"] + fails["memory"]
    res["ub_info"] = fails["info"]
    real_unwind = [f for f in fails["unwind"] if not f["description"].startswith("status ")]
    undecided = [f for f in fails["unwind"] if f["description"].startswith("status ")]
    if real_unwind:
        res.update(verdict="error", detail="unwinding assertion failed: bound too small: " + json.dumps(real_unwind[:3]))
    elif undecided and not res["failures"]:
        res.update(verdict="noverdict", detail="solver left %d properties undecided (%s)" % (len(undecided), undecided[0]["description"]))
    elif res["failures"]:
        res["verdict"] = "fail"
        res["qdir"] = qdir
        return res           # keep qdir for the trace re-run
    elif not witness_ok:
        res.update(verdict="error", detail="vacuous: end-of-harness witness not reachable")
    else:
        res["verdict"] = "pass"
    _cleanup(qdir)
    return res


def _cleanup(qdir):
    shutil.rmtree(qdir, ignore_errors=True)


def extract_inputs(q, qdir, failure):
    """Re-run CBMC with --trace on one failed property and read IN_LOG back."""
    gb = compile_query(q, qdir, extra_defs=["-DNO_WITNESS"])
    env = dict(os.environ, TMPDIR=qdir)
    cmd = cbmc_cmd(q, gb, trace=True) + ["--stop-on-fail"]
    rc, out, err, to, secs = run_proc(cmd, q.timeout * 2, q.mem_gb, cwd=qdir, env=env)
    if to:
        return None, None
    try:
        data = json.loads(out)
    except Exception:
        return None, None
    trace = None
    failed = None
    for el in data:
        if isinstance(el, dict) and "trace" in el and "property" in el:
            trace = el["trace"]          # --stop-on-fail: the failed property is a top-level element
            failed = el
            break
        if isinstance(el, dict) and "result" in el:
            for r in el["result"]:
                if r.get("status") == "FAILURE" and "trace" in r:
                    trace = r["trace"]
                    failed = r
                    break
    if trace is None:
        return None, None
    vals = {}
    pos = 0
    for st in trace:
        if st.get("stepType") != "assignment":
            continue
        lhs = st.get("lhs", "")
        m = re.match(r"IN_LOG\[(\d+)l?\]$", lhs)
        if m:
            v = st.get("value", {})
            d = v.get("data")
            try:
                vals[int(m.group(1))] = int(d) & 0xFF
            except Exception:
                b = v.get("binary")
                if b:
                    vals[int(m.group(1))] = int(b, 2) & 0xFF
        elif lhs == "IN_POS":
            try:
                pos = max(pos, int(st.get("value", {}).get("data", "0")))
            except Exception:
                pass
    n = (max(vals) + 1) if vals else 0
    data = bytes(vals.get(i, 0) for i in range(n))
    return data, failed


NATIVE_CFLAGS = ["-g", "-O1", "-fsanitize=address", "-fno-omit-frame-pointer", "-w"]


def native_build(q, outdir, extra_defs=()):
    os.makedirs(outdir, exist_ok=True)
    write_params(os.path.join(outdir, "params.h"), q.params)
    exe = os.path.join(outdir, "replay.exe")
    nat_defs = [d for d in q.lib_defs if "OPENFEC_VERIF" not in d]
    if q.lib_exclude and q.lib_exclude[0] == "ONLY":
        srcs = lib_sources()      # native replays always link the whole real library
    else:
        srcs = [s for s in lib_sources() if not any(e in s for e in q.lib_exclude)]
    cmd = ["gcc"] + NATIVE_CFLAGS + ["-DOPENFEC_LITTLE_ENDIAN", "-DNDEBUG", "-DVERIF_NATIVE"] + nat_defs + list(q.native_defs) + list(extra_defs) + \
          ["-I", HARNESS, "-I", outdir, "-I", os.path.join(REPO, "src"), "-I", REPO,
           "-include", os.path.join(outdir, "params.h"),
           os.path.join(HARNESS, q.harness)] + list(q.extra_src) + srcs + ["-lm", "-o", exe]
    r = sh(cmd)
    if r.returncode != 0:
        raise RuntimeError("native build failed:\n" + r.stderr[-4000:])
    return exe


def native_run(exe, input_bytes, workdir, timeout=120):
    inp = os.path.join(workdir, "input.bin")
    with open(inp, "wb") as f:
        f.write(input_bytes)
    env = dict(os.environ, VERIF_REPLAY_INPUT=inp,
               ASAN_OPTIONS="detect_leaks=1:abort_on_error=0:exitcode=98:allocator_may_return_null=1",
               LSAN_OPTIONS="exitcode=99")
    try:
        p = subprocess.run([exe], stdout=subprocess.PIPE, stderr=subprocess.PIPE, text=True, env=env, timeout=timeout)
        return p.returncode, (p.stdout[-1500:] + p.stderr[-3000:])
    except subprocess.TimeoutExpired:
        return -999, "native replay timed out"


def replay_failure(q, res):
    """Turn a CBMC failure into a replay file and run it natively.  Returns (path, reproduced, detail)."""
    qdir = res.get("qdir") or os.path.join(scratch(), "q-" + q.key())
    data, failed = extract_inputs(q, qdir, res["failures"][0])
    os.makedirs(REPLAY, exist_ok=True)
    path = os.path.join(REPLAY, "%s-%s.json" % (q.prop, q.key()))
    rec = {"property": q.prop, "harness": q.harness, "params": q.params, "lib_defs": list(q.lib_defs),
           "native_defs": list(q.native_defs), "lib_exclude": list(q.lib_exclude),
           "extra_src": list(q.extra_src),
           "input_hex": data.hex() if data is not None else None,
           "cbmc_failures": res["failures"][:8], "query": q.name}
    if data is None:
        rec["note"] = "no trace could be extracted"
        data = b""
    try:
        exe = native_build(q, os.path.join(qdir, "native"))
        rc, out = native_run(exe, data, os.path.join(qdir, "native"))
        rec["native_rc"] = rc
        rec["native_output"] = out[-2500:]
        reproduced = (rc != 0)
    except Exception as e:
        rec["native_rc"] = None
        rec["native_output"] = str(e)[-2500:]
        reproduced = False
    with open(path, "w") as f:
        json.dump(rec, f, indent=1)
    _cleanup(qdir)
    return path, reproduced, rec


def replay_file(path):
    rec = json.load(open(path))
    q = Query(rec["property"], rec["harness"], rec["params"], lib_defs=rec.get("lib_defs", ()),
              native_defs=rec.get("native_defs", ()), lib_exclude=rec.get("lib_exclude", ()),
              extra_src=rec.get("extra_src", ()))
    d = os.path.join(scratch(), "replay")
    exe = native_build(q, d)
    rc, out = native_run(exe, bytes.fromhex(rec.get("input_hex") or ""), d)
    print(out)
    print("replay exit code: %s (%s)" % (rc, "REPRODUCED" if rc != 0 else "did not reproduce"))
    return 1 if rc != 0 else 0


# ---------------------------------------------------------------- known findings

def load_known():
    p = os.path.join(VERIF, "known_findings.json")
    if not os.path.exists(p):
        return []
    return json.load(open(p)).get("findings", [])


def match_known(known, q, failure):
    """A known finding matches on harness + check/description regex + a subset of params."""
    for k in known:
        if k.get("status") != "known":
            continue
        m = k.get("match", {})
        if m.get("harness") and m["harness"] != q.harness:
            continue
        if m.get("check") and not re.search(m["check"], failure["description"] + " @" + failure.get("function", "") ):
            continue
        ok = True
        for pk, pv in m.get("params", {}).items():
            if str(q.params.get(pk)) != str(pv):
                ok = False
                break
        if ok:
            return k
    return None


# ---------------------------------------------------------------- property run

_group_lock = threading.Lock()
_group_failed = set()


def run_query_chain(q):
    """A query may be a *filter*: a cheaper abstraction whose PASS implies the PASS of the exact
    query `q.fallback` (stated where the abstraction is defined) but whose FAILURE means nothing.
    A failing filter is therefore never reported: the exact query is run and its result is the
    result.  Filters of one `group` (e.g. one kernel over many sizes) stop pursuing exact queries
    once one exact query of the group has failed (one counterexample is enough for a VIOLATION);
    the remaining ones are recorded as 'skipped'."""
    r = run_query(q)
    fb = getattr(q, "fallback", None)
    if fb is None:
        return r, q
    r["filter"] = True
    if r["verdict"] != "fail":
        return r, q
    grp = getattr(q, "group", None)
    with _group_lock:
        skip = grp is not None and grp in _group_failed
    _cleanup(r.get("qdir", ""))
    if skip:
        return {"name": fb.name, "verdict": "skipped", "harness": fb.harness, "params": {}, "seconds": r.get("seconds", 0),
                "solver_seconds": r.get("solver_seconds", 0), "filter_failed": q.name,
                "detail": "filter failed; exact query not run because an exact query of group %s already failed" % grp}, fb
    r2 = run_query(fb)
    r2["filter_failed"] = q.name
    r2["seconds"] = round(r2.get("seconds", 0) + r.get("seconds", 0), 2)
    r2["solver_seconds"] = round(r2.get("solver_seconds", 0) + r.get("solver_seconds", 0), 2)
    if r2["verdict"] == "fail" and grp is not None:
        with _group_lock:
            _group_failed.add(grp)
    return r2, fb


def run_property(prop, tier, queries, meta):
    """Run all queries, replay failures, print verdict lines, write evidence; return exit code."""
    t0 = time.time()
    seed = int(os.environ.get("VERIF_SEED", "0") or 0)
    jobs = int(os.environ.get("VERIF_JOBS", "0") or 0) or max(1, (os.cpu_count() or 4) - 1)
    known = load_known()
    uniq = {}
    for q in queries:
        uniq.setdefault(q.key(), q)
    queries = list(uniq.values())
    results = []
    print("[%s/%s] %d queries, %d workers, repo fingerprint %s" % (prop, tier, len(queries), jobs, source_fingerprint()), flush=True)
    qmap = {}
    with cf.ThreadPoolExecutor(max_workers=jobs) as ex:
        futs = {ex.submit(run_query_chain, q): q for q in queries}
        done = 0
        for fu in cf.as_completed(futs):
            q = futs[fu]
            try:
                r, q = fu.result()
            except Exception as e:
                r = {"name": q.name, "verdict": "error", "detail": repr(e), "harness": q.harness, "params": {}}
            qmap[r["name"]] = q
            results.append(r)
            done += 1
            if r["verdict"] != "pass" or done % 25 == 0 or done == len(queries):
                print("  [%d/%d] %-8s %6.1fs %s %s" % (done, len(queries), r["verdict"], r.get("seconds", 0), r["name"][:150], r.get("detail", "")[:300]), flush=True)
    violations = []
    known_hits = []
    unconfirmed = []
    broken = [r for r in results if r["verdict"] in ("error", "noverdict")]
    failing = [r for r in results if r["verdict"] == "fail"]
    skipped = [r for r in results if r["verdict"] == "skipped"]
    # replay (sequential per failing query, parallel across queries)
    def handle(r):
        q = qmap[r["name"]]
        unk = []
        for f in r["failures"]:
            k = match_known(known, q, f)
            if k:
                known_hits.append((k, q, f))
            else:
                unk.append(f)
        if not unk:
            _cleanup(r.get("qdir", ""))
            return
        r2 = dict(r)
        r2["failures"] = unk
        path, rep, rec = replay_failure(q, r2)
        if rep:
            violations.append((q, unk, path))
        else:
            unconfirmed.append((q, unk, path, rec))
    with cf.ThreadPoolExecutor(max_workers=min(jobs, 8)) as ex:
        list(ex.map(handle, failing))
    seen = set()
    for k, q, f in known_hits:
        if k["id"] in seen:
            continue
        seen.add(k["id"])
        print("KNOWN-FINDING: property=%s %s" % (k["property"], k["what"]), flush=True)
    # a known finding listed for this property that no query hit any more is only noted
    for q, fl, path in violations:
        owner = prop
        print("VIOLATION property=%s replay=%s" % (owner, path), flush=True)
        for f in fl[:4]:
            print("    %s [%s %s] in %s" % (f["description"], f["where"], f["property"], q.name[:120]), flush=True)
    for q, fl, path, rec in unconfirmed:
        print("INCONCLUSIVE property=%s cbmc counterexample did not reproduce natively (replay=%s): %s" % (prop, path, fl[0]["description"]), flush=True)
        print("    query: %s\n    native rc=%s" % (q.name[:200], rec.get("native_rc")), flush=True)
    for r in broken:
        print("BROKEN-QUERY %s: %s %s" % (r["verdict"], r["name"][:160], r.get("detail", "")[:400]), flush=True)

    wall = time.time() - t0
    passed = [r for r in results if r["verdict"] == "pass"]
    zero_ok = bool(meta.get("count_zero_free_bits"))
    nontrivial = len({r["name"] for r in results if r.get("witness_ok") and (r.get("free_input_bits", 0) > 0 or (zero_ok and r.get("vcs", 0) > 0))})
    ub = {}
    for r in results:
        for f in r.get("ub_info", []):
            ub.setdefault(f["description"][:90] + " @" + f["where"], 0)
            ub[f["description"][:90] + " @" + f["where"]] += 1
    samples = []
    for r in sorted(results, key=lambda r: r["name"])[:: max(1, len(results) // 6)][:8]:
        samples.append({k: r.get(k) for k in ("name", "harness", "params", "free_input_bits", "unwind", "verdict", "seconds", "vcs", "witness_ok")})
    cov = {
        "evaluations": len(results),
        "distinct_nontrivial": nontrivial,
        "rule": meta.get("rule", "one CBMC query per (harness, parameter tuple); non-trivial = at least one free input bit and the end-of-harness witness assertion reported FAILED (harness end reachable under the assumptions)"),
        "samples": samples,
        "exhaustive": bool(meta.get("exhaustive", False)),
        "functions_encoded": meta.get("functions_encoded", []),
        "units_verified": meta.get("units", []),
        "bounds": meta.get("bounds", ""),
        "outside_bounds": meta.get("outside_bounds", ""),
        "stubs": meta.get("stubs", []),
        "queries": len(results),
        "queries_passed": len(passed),
        "queries_failed": len(failing),
        "no_verdict": [r["name"] for r in broken],
        "filter_queries": sum(1 for r in results if r.get("filter")),
        "filter_failures_decided_by_exact_query": [{"filter": r.get("filter_failed", "")[:160], "exact_verdict": r["verdict"]} for r in results if r.get("filter_failed")][:40],
        "vcs_total": sum(r.get("vcs", 0) for r in results),
        "free_input_bits_max": max([r.get("free_input_bits", 0) for r in results] or [0]),
        "solver_time_s": round(sum(r.get("solver_seconds", 0) for r in results), 1),
        "solver": "cbmc 6.11 --external-sat-solver kissat (unless a query says otherwise)",
        "witnesses_reached": sum(1 for r in results if r.get("witness_ok")),
        "slowest_queries": [{"name": r["name"][:160], "seconds": r.get("seconds")} for r in sorted(results, key=lambda r: -(r.get("seconds") or 0))[:5]],
        "ub_info": [{"what": k, "queries": v} for k, v in sorted(ub.items())][:40],
        "known_findings": sorted(seen),
        "replays": [p for _q, _f, p in violations],
        "repo_fingerprint": source_fingerprint(),
        "explanation": meta.get("explanation", ""),
    }
    ev = {"property_id": prop, "tier": tier, "seed": seed, "level": "model_checking", "coverage": cov,
          "assumptions": meta.get("assumptions", []), "wall_s": round(wall, 1), "violations": len(violations)}
    os.makedirs(EVID, exist_ok=True)
    with open(os.path.join(EVID, prop + ".json"), "w") as f:
        json.dump(ev, f, indent=1)
    print("[%s/%s] %d queries: %d pass, %d fail (%d known-finding ids, %d violations, %d unconfirmed), %d broken; %.0fs wall, %.0fs solver" %
          (prop, tier, len(results), len(passed), len(failing), len(seen), len(violations), len(unconfirmed), len(broken), wall, cov["solver_time_s"]), flush=True)
    if violations:
        return 1
    if broken or unconfirmed or skipped:      # 'skipped' only arises after a failing exact query
        return 2
    return 0


# ---------------------------------------------------------------- library subsets per codec
_COMMON = ["of_openfec_api.c", "of_mem.c"]
_LBC = ["of_rand.c", "of_symbol.c", "of_it_decoding.c", "of_ml_decoding.c", "of_ml_tool.c", "of_matrix_sparse.c",
        "of_matrix_dense.c", "of_matrix_convert.c", "of_hamming_weight.c", "of_tools.c", "of_create_pchk.c"]
SUBSET = {
    1: ("ONLY",) + tuple(_COMMON + ["of_reed-solomon_gf_2_8.c", "of_reed-solomon_gf_2_8_api.c"]),
    2: ("ONLY",) + tuple(_COMMON + ["of_reed-solomon_gf_2_m_api.c", "of_galois_field_code.c", "algebra_2_4.c", "algebra_2_8.c"]),
    3: ("ONLY",) + tuple(_COMMON + _LBC + ["of_ldpc_staircase_api.c", "of_ldpc_staircase_pchk.c"]),
    5: ("ONLY",) + tuple(_COMMON + _LBC + ["of_2d_parity_api.c"]),
}
