"""Independent reference models used as oracles by the driver (never by the library):
GF(2^m) shift-xor arithmetic, the systematic Vandermonde generator, the RFC 5170
LDPC-Staircase matrix (own transcription of the RFC's pseudo-code), peeling closure,
GF(2) rank, the 2D product-parity structure."""

PM_MOD = 0x7FFFFFFF


# ------------------------------------------------------------------ GF(2^m)
POLY = {4: 0x13, 8: 0x11D}     # x^4+x+1 ; x^8+x^4+x^3+x^2+1


def gf_mul(a, b, m):
    r = 0
    p = POLY[m]
    for _ in range(m):
        if b & 1:
            r ^= a
        b >>= 1
        a <<= 1
        if a >> m & 1:
            a ^= p
    return r


def gf_pow(a, e, m):
    r = 1
    for _ in range(e):
        r = gf_mul(r, a, m)
    return r


def gf_inv(a, m):
    for b in range(1, 1 << m):
        if gf_mul(a, b, m) == 1:
            return b
    raise ZeroDivisionError


def gf_exp_table(m):
    t = [1]
    for _ in range((1 << m) - 2):
        t.append(gf_mul(t[-1], 2, m))
    return t


def mat_inv(a, m):
    n = len(a)
    a = [row[:] + [1 if i == j else 0 for j in range(n)] for i, row in enumerate(a)]
    for c in range(n):
        p = next(r for r in range(c, n) if a[r][c])
        a[c], a[p] = a[p], a[c]
        iv = gf_inv(a[c][c], m)
        a[c] = [gf_mul(iv, x, m) for x in a[c]]
        for r in range(n):
            if r != c and a[r][c]:
                f = a[r][c]
                a[r] = [x ^ gf_mul(f, y, m) for x, y in zip(a[r], a[c])]
    return [row[n:] for row in a]


def rs_generator(k, n, m):
    """Systematic generator (n x k) of the RS code on evaluation points 0,1,a,a^2,..."""
    ex = gf_exp_table(m)
    fs = (1 << m) - 1
    v = [[1] + [0] * (k - 1)]
    for row in range(n - 1):
        v.append([ex[(row * col) % fs] for col in range(k)])
    top_inv = mat_inv([r[:] for r in v[:k]], m)
    g = []
    for i in range(n):
        g.append([_dot(v[i], [top_inv[t][j] for t in range(k)], m) for j in range(k)])
    for i in range(k):
        assert g[i] == [1 if i == j else 0 for j in range(k)]
    return g


def _dot(a, b, m):
    r = 0
    for x, y in zip(a, b):
        r ^= gf_mul(x, y, m)
    return r


# ------------------------------------------------------------------ Park-Miller / RFC 5170
class PMMS:
    def __init__(self, seed):
        assert 1 <= seed <= PM_MOD - 1
        self.s = seed

    def rand(self, maxv):
        self.s = (16807 * self.s) % PM_MOD
        return int(float(self.s) * float(maxv) / float(PM_MOD))


def ldpc_matrix(k, r, n1, seed):
    """RFC 5170 section 5.? (LDPC-Staircase) parity-check matrix.
    Returns (rows, extra) where rows[i] is the set of ESIs of equation i
    (source ESIs 0..k-1, repair ESIs k..n-1) and extra tells whether extra entries
    had to be added (row degree < 2)."""
    n = k + r
    g = PMMS(seed)
    has = [set() for _ in range(r)]          # source part: has[row] = set of source cols
    u = [h % r for h in range(n1 * k)]
    t = 0
    for j in range(k):
        for _h in range(n1):
            i = t
            while i < n1 * k and j in has[u[i]]:
                i += 1
            if i < n1 * k:
                while True:
                    i = t + g.rand(n1 * k - t)
                    if j not in has[u[i]]:
                        break
                has[u[i]].add(j)
                u[i] = u[t]
                t += 1
            else:
                while True:
                    i = g.rand(r)
                    if j not in has[i]:
                        break
                has[i].add(j)
    extra = 0
    for i in range(r):
        if len(has[i]) == 0:
            j = g.rand(k)
            has[i].add(j)
            extra += 1
        if len(has[i]) == 1 and k > 1:
            while True:
                j = g.rand(k)
                if j not in has[i]:
                    break
            has[i].add(j)
            extra += 1
    rows = []
    for i in range(r):
        s = set(has[i])
        s.add(k + i)
        if i > 0:
            s.add(k + i - 1)
        rows.append(s)
    return rows, extra > 0


def parity2d_matrix(k, r):
    """The d x l product single-parity code as the 2D codec is specified: the first
    floor(sqrt(n))-downwards d for which l = k/d is an integer and d + l == r.
    Source i sits at grid row i // l, column i % l; check j < d covers grid row j,
    check d + c covers grid column c; check j has repair symbol k + j.  None if no
    such (d, l) exists."""
    n = k + r
    import math
    d = int(math.isqrt(n))
    while d > 0:
        if k % d == 0 and d + k // d == r:
            l = k // d
            # the library calls fill(m, l, d): inside, "d" rows of "l" sources each
            # are built with swapped names; as a code the structure is symmetric:
            # rows = one family of checks partitions the sources into consecutive runs,
            # the other family takes every stride-th source.
            return d, l
        d -= 1
    return None


# ------------------------------------------------------------------ decoding oracles
def peel(rows, known):
    known = set(known)
    changed = True
    while changed:
        changed = False
        for eq in rows:
            unk = [c for c in eq if c not in known]
            if len(unk) == 1:
                known.add(unk[0])
                changed = True
    return known


def rank_gf2(vectors):
    basis = []
    for v in vectors:
        for b in basis:
            v = min(v, v ^ b)
        if v:
            basis.append(v)
    return len(basis)


def ml_decodable(rows, known, n):
    """All unknown symbols are uniquely determined by the equations: the columns of the
    unknown symbols are linearly independent over GF(2)."""
    unk = [c for c in range(n) if c not in known]
    if not unk:
        return True
    cols = []
    for c in unk:
        v = 0
        for i, eq in enumerate(rows):
            if c in eq:
                v |= 1 << i
        cols.append(v)
    return rank_gf2(cols) == len(unk)


def src_mask(known, k):
    m = 0
    for c in known:
        if c < k:
            m |= 1 << c
    return m


def chain_cover(n):
    """Symmetric chain decomposition of the subset lattice of {0..n-1}: a list of
    permutations such that every subset occurs as the element set of some prefix."""
    chains = [[frozenset()]]
    for e in range(n):
        new = []
        for ch in chains:
            # chain C0 < C1 < ... < Cm  ->  C0 < ... < Cm < Cm+e   and   C0+e < ... < Cm-1+e
            a = ch + [ch[-1] | {e}]
            b = [c | {e} for c in ch[:-1]]
            new.append(a)
            if b:
                new.append(b)
        chains = new
    perms = []
    for ch in chains:
        # extend chain to a full permutation: start from the bottom set (any order), add the chain's elements, then the rest
        start = sorted(ch[0])
        order = list(start)
        for a, b in zip(ch, ch[1:]):
            (x,) = tuple(b - a)
            order.append(x)
        rest = [e for e in range(n) if e not in order]
        perms.append((order + rest, len(start)))
    return perms
