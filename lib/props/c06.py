"""C06 -- encoders emit the canonical codeword of the configured code."""
from encq import *

EN = ("C06",)


def build(tier):
    qs = []
    lens = [1, 15, 16, 17, 33]
    if tier == "quick":
        rs = [(RS2M, 4, 3, 3), (RS2M, 4, 6, 6), (RS2M, 4, 1, 14), (RS2M, 4, 14, 1), (RS2M, 8, 3, 3), (RS2M, 8, 5, 4), (RS28, 8, 3, 3), (RS28, 8, 5, 4), (RS28, 8, 1, 2)]
        ld = [(2, 3, 3, 1), (3, 3, 3, 1), (5, 4, 3, 1), (4, 4, 4, 2), (6, 5, 5, 12345), (1, 5, 4, 1), (2, 5, 4, 3), (2, 4, 4, 1), (3, 6, 4, 5)]
    else:
        rs = [(RS2M, 4, k, r) for k in (1, 2, 3, 4, 5, 6) for r in (1, 2, 3, 6)] + [(RS2M, 4, 1, 14), (RS2M, 4, 2, 13), (RS2M, 4, 14, 1), (RS2M, 4, 7, 8)] + \
             [(c, 8, k, r) for c in (RS2M, RS28) for k in (1, 2, 3, 4, 5) for r in (1, 2, 4)] + [(RS2M, 8, 6, 6), (RS28, 8, 6, 6)]
        ld = [(k, r, n1, s) for k in (1, 2, 3, 5, 8) for (r, n1) in ((3, 3), (4, 4), (5, 3), (6, 5)) for s in (1, 12345)]
    for i, (codec, m, k, r) in enumerate(rs):
        big = k * r > 16
        if big:
            cfg_lens = [1] if tier == "quick" else [1, 17]
        else:
            cfg_lens = lens if tier == "thorough" else [lens[i % 5], lens[(i + 2) % 5]]
        for li, ln in enumerate(cfg_lens):
            data = "one" if (k * ln > 40 or big) else "full"
            qs.append(enc_query("C06", codec, k, r, ln, m=m, en=EN, data=data, null_slot=(li == 0 and not big), timeout=900 if tier == "quick" else 3000))
    for i, (k, r, n1, s) in enumerate(ld):
        for li, ln in enumerate([lens[i % 5], lens[(i + 3) % 5]] if tier == "quick" else lens):
            qs.append(enc_query("C06", LDPC, k, r, ln, n1=n1, seed=s, en=EN, null_slot=(li == 0)))
    meta = dict(
        units=["src/lib_stable/reed-solomon_gf_2_8/*.c", "src/lib_stable/reed-solomon_gf_2_m/**/*.c", "src/lib_stable/ldpc_staircase/*.c", "src/lib_common/linear_binary_codes_utils/of_symbol.c"],
        functions_encoded=["of_build_repair_symbol (all three codecs)", "of_rs_new/of_rs_encode", "of_rs_2m_build_encoding_matrix/of_rs_2m_encode", "of_ldpc_staircase_build_repair_symbol", "of_create_pchck_matrix_rfc5170_compliant"],
        bounds="RS (codec,m,k,r) in %s, LDPC (k,r,N1,seed) in %s, symbol lengths from {1,15,16,17,33}: every repair symbol, for all source data (data=full) or one solver-chosen free source symbol (k*len>40), equals sum_i G_ref[esi][i]*src_i with G_ref the systematic generator from the Vandermonde matrix on points 0,1,a,a^2.. computed in lib/ref.py by shift-xor arithmetic mod x^8+x^4+x^3+x^2+1 / x^4+x+1 and the product recomputed in the harness by shift-xor (nibble-wise for m=4); codec 1 and codec 2 (m=8) are compared with the same G_ref, hence with each other. LDPC: every row of the reference RFC 5170 matrix sums to zero over the encoder's output. All: source buffers and source table entries unchanged; NULL output slot replaced by a library buffer holding the same symbol" % ([(CODEC_NAME[c], m, k, r) for c, m, k, r in rs], ld),
        outside_bounds="k, n beyond the grid (up to n=15 for m=4; n<=12 for m=8); lengths other than the five; data=one leaves the other source symbols at fixed pseudo-random values",
        stubs=[RS_STUB, RS28_TABLES], assumptions=STD_ASSUMPTIONS, exhaustive=False)
    return qs, meta
