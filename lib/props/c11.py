"""C11 -- decoded-source-symbol callback contract."""
from cycles import *

EN = ("C11", "C01")


def build(tier):
    qs = []
    cfgs = [(2, 3, 3, 1), (3, 3, 3, 1)] if tier == "quick" else [(2, 3, 3, 1), (3, 3, 3, 1), (3, 4, 4, 1), (4, 3, 3, 1)]
    for ci, cfg in enumerate(cfgs):
        k, r, n1, sd = cfg
        n = k + r
        for pi, pat in enumerate(all_patterns(n)):
            if len([e for e in pat if e < k]) == k:
                if pi % 4:
                    continue          # nothing to decode: keep a few
            combos = [(0, 1, pi % 3, 1 + pi % 3), (1, 1, 0, 3)] if tier == "quick" else [(0, 1, 0, 1), (0, 1, 1, 2), (0, 1, 4, 3), (1, 1, 0, 3), (0, 0, 2, 3)]
            for api, fin, var, cb in combos:
                qs.append(ldpc_cycle("C11", cfg, pat, (1, 9)[pi % 2], api, fin, var, EN, cb=cb))
    rs = [(4, 2, 2, "full"), (4, 3, 2, "one"), (8, 2, 2, "full")] if tier == "quick" else \
         [(4, 2, 2, "full"), (4, 3, 2, "one"), (4, 3, 3, "one"), (8, 2, 2, "full"), (8, 3, 2, "one")]
    for m, k, r, data in rs:
        n = k + r
        for pi, pat in enumerate(all_patterns(n)):
            if len(pat) < k:
                if pi % 3:
                    continue
            cbs = [1 + pi % 3] if tier == "quick" else [1, 2, 3]
            for cb in cbs:
                qs.append(rs_cycle("C11", RS2M, k, r, (1, 3)[pi % 2] if data == "full" else 5, m, pat, pi % 2, 1, pi % 3, EN, cb=cb, data=data))
    # a larger LDPC code, received sets chosen with the reference model: peeling rebuilds >= 2 source symbols
    # (a rebuilt symbol feeds the next equation), and sets needing a successful Gaussian elimination
    import os
    sd = int(os.environ.get("VERIF_SEED", "0") or 0)
    cfg = (4, 4, 3, 1)
    chain = pick(ldpc_it_chain_patterns(cfg), sd, 24 if tier == "quick" else 200)
    for pi, pat in enumerate(chain):
        for var, cb in (((0, 1), (1, 3)) if tier == "quick" else ((0, 1), (1, 3), (2, 2), (3, 1))):
            qs.append(ldpc_cycle("C11", cfg, pat, (1, 9)[pi % 2], 0, pi % 2, var, EN, cb=cb))
    for pi, pat in enumerate(ldpc_classes(cfg)["ml-ok"][:: (3 if tier == "quick" else 1)]):
        qs.append(ldpc_cycle("C11", cfg, pat, 1, pi % 2, 1, 0, EN, cb=(1, 3)[pi % 2]))
    # codec 1 (legacy GF(2^8)): a few received sets (about 100 s each)
    for pi, pat in enumerate([[2, 3], [0, 3], [1, 2, 3]] if tier == "quick" else [[2, 3], [0, 3], [1, 2], [1, 2, 3], [0, 2, 3], [3, 2]]):
        qs.append(rs_cycle("C11", RS28, 2, 2, 1 + pi % 2, 8, pat, pi % 2, 1, 0, EN, cb=(1, 3, 2)[pi % 3], data="full", timeout=1500))
    meta = dict(
        units=["src/lib_common/of_openfec_api.c", "it_decoding/of_it_decoding.c", "ml_decoding/of_ml_decoding.c", "src/lib_stable/reed-solomon_gf_2_m/of_reed-solomon_gf_2_m_api.c"],
        functions_encoded=["of_set_callback_functions", "decoded_source_symbol_callback call sites in of_it_decoding.c, of_ml_decoding.c, of_rs_2_m_finish_decoding"],
        bounds="LDPC %s (plus, on (4,4,N1=3), received sets chosen with the reference model: peeling rebuilds at least two source symbols in a chain, or a Gaussian elimination must succeed) and RS GF(2^m) %s: every received set that leaves something to decode (plus a quarter of the others), both APIs; callback returning an application buffer / NULL / a solver-chosen mix per call; asserted: callback arguments (context, size == symbol length, esi < k), exactly one call per decoded source symbol, none for a symbol received while unknown, source table reports the callback's buffer (or a distinct library buffer after NULL), contents equal the encoded symbol for all source data. Received sets cover every decoding stage (peeling, ML simplification, Gaussian elimination) because all 2^n sets are enumerated" % (cfgs, [x[:3] for x in rs]),
        outside_bounds="codec 1 beyond (2,2) and a handful of received sets; decoded_repair_symbol callback (not part of the property); larger codes",
        stubs=[RS_STUB, RS28_TABLES], assumptions=STD_ASSUMPTIONS, exhaustive=False)
    return qs, meta
