"""C01 -- decoders never hand back a wrong source symbol."""
import os
from cycles import *

EN = ("C01",)


def build(tier):
    qs = []
    seed = int(os.environ.get("VERIF_SEED", "0") or 0)
    # ---- LDPC-Staircase: all 2^n received sets
    cfgs = [(2, 3, 3, 1), (3, 3, 3, 1)] if tier == "quick" else [(1, 3, 3, 1), (2, 3, 3, 1), (3, 3, 3, 1), (3, 4, 4, 1), (4, 3, 3, 1), (2, 4, 4, 2), (2, 5, 5, 12345), (4, 4, 3, 2), (5, 3, 3, 7)]
    for ci, cfg in enumerate(cfgs):
        k, r, n1, sd = cfg
        n = k + r
        for pi, pat in enumerate(all_patterns(n)):
            combos = [(0, 0), (0, 1), (1, 1)] if tier == "thorough" else ([(0, pi % 2), (1, 1)] if n <= 5 else [((pi + ci) % 2, 1)])
            for api, fin in combos:
                variants = [pi % 5] if tier == "quick" else ([0, 1, 3, 4] if n <= 6 else [pi % 5])
                for v in (variants if api == 0 else [0]):
                    ln = (1, 9, 13)[(pi + v) % (2 if tier == "quick" else 3)]
                    qs.append(ldpc_cycle("C01", cfg, pat, ln, api, fin, v, EN))
    if tier == "quick":
        cfg = (3, 4, 4, 1)          # even N1: pre-injected null last repair symbol
        for pi, pat in enumerate(all_patterns(7)):
            if pi % 3 == seed % 3:
                qs.append(ldpc_cycle("C01", cfg, pat, 8, int(pi % 2 == 0), 1, pi % 5, EN))
    # larger LDPC codes: every received set for which the Gaussian elimination must succeed (chosen with the
    # reference model), index order through both APIs -- the decoded values then come out of the ML path
    for cfg in ([(4, 4, 3, 1), (4, 5, 4, 1)] if tier == "quick" else [(4, 4, 3, 1), (4, 5, 4, 1), (5, 4, 3, 7), (5, 5, 4, 3)]):
        for pi, pat in enumerate(ldpc_classes(cfg)["ml-ok"]):
            for api in ((pi % 2,) if tier == "quick" else (0, 1)):
                qs.append(ldpc_cycle("C01", cfg, pat, (1, 9)[pi % 2], api, 1, 0, EN))
    # ---- Reed-Solomon GF(2^m): all 2^n received sets
    rs = [(4, 2, 2, "full"), (4, 3, 2, "one"), (8, 2, 2, "full"), (8, 2, 3, "one")] if tier == "quick" else \
         [(4, 2, 2, "full"), (4, 3, 3, "full"), (4, 4, 3, "one"), (4, 5, 3, "one"), (4, 2, 6, "one"), (4, 6, 2, "one"),
          (8, 2, 2, "full"), (8, 3, 2, "one"), (8, 3, 3, "one"), (8, 4, 2, "one"), (8, 2, 4, "one")]
    for m, k, r, data in rs:
        n = k + r
        for pi, pat in enumerate(all_patterns(n)):
            api = pi % 2
            fin = 1 if api == 1 else (pi // 2) % 2
            ln = (1, 2)[pi % 2] if data == "full" else (3, 17)[pi % 2]
            qs.append(rs_cycle("C01", RS2M, k, r, ln, m, pat, api, fin, pi % 5, EN + ("C02",), data=data))
    # codec 1 (legacy GF(2^8)): ~100 s per query, so a few received sets only
    c1 = [(2, 2)] if tier == "quick" else [(2, 2), (3, 2), (2, 3)]
    for k, r in c1:
        n = k + r
        pats = all_patterns(n)
        if tier == "quick":
            pats = [p for p in pats if len(p) >= k][::3]
        for pi, pat in enumerate(pats):
            qs.append(rs_cycle("C01", RS28, k, r, 1 + pi % 2, 8, pat, pi % 2, 1, pi % 5, EN + ("C02",), data=("full" if k == 2 else "one"), timeout=1500))
    meta = dict(
        units=["src/lib_common/of_openfec_api.c", "src/lib_stable/ldpc_staircase/*.c", "src/lib_common/linear_binary_codes_utils/**/*.c",
               "src/lib_stable/reed-solomon_gf_2_m/**/*.c"],
        functions_encoded=["of_create_codec_instance", "of_set_fec_parameters", "of_build_repair_symbol", "of_decode_with_new_symbol",
                           "of_set_available_symbols", "of_finish_decoding", "of_is_decoding_complete", "of_get_source_symbols_tab",
                           "of_release_codec_instance", "and everything they reach (IT/ML decoders, sparse/dense matrices, RS matrix inversion)"],
        bounds="LDPC-Staircase (k,r,N1,seed) in %s: every one of the 2^n received sets, orders {index, reverse, rotation, duplicated}, both submission APIs, with/without of_finish_decoding, len in {1,9,13}; all k*len source bytes symbolic. RS GF(2^m) (m,k,r,data) in %s: every received set; data=full: all source bytes symbolic, data=one: one source symbol (chosen by the solver) fully symbolic, the others fixed pseudo-random bytes" % (cfgs, rs),
        outside_bounds="codec 1 (legacy RS GF(2^8)) only on (2,2) [thorough: (3,2),(2,3)] (about 100 s per received set); larger k; RS with more than one free source symbol for k>3 (SAT-hard); received sets of larger codes",
        stubs=[RS_STUB, RS28_TABLES], assumptions=STD_ASSUMPTIONS, exhaustive=False)
    return qs, meta
