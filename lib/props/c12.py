"""C12 -- sessions are independent of each other."""
import core
from cycles import *


def iq(a, b, sub, data="full", timeout=1500, bmode=0):
    (ca, ka, ra, la, ma, n1a, sa) = a
    (cb, kb, rb, lb, mb, n1b, sb) = b
    use28 = RS28 in (ca, cb)
    lib_defs = BLOCK + ((('-DOPENFEC_VERIF_GF28_TABLES="%s"' % gf28_tables_header()),) if use28 else ())
    remove = tuple(core.KERNELS if use28 else core.KERNELS[:3])
    p = dict(CODEC=ca, PK=ka, PR=ra, PLEN=la, PM=ma, PN1=n1a, PSEED=sa, BCODEC=cb, BK=kb, BR=rb, BLEN=lb, BM=mb, BN1=n1b, BSEED=sb,
             NSUB=len(sub), SUB_INIT=init_list(sub), STUB_KERNELS=1, VERIF_RAND_MODE=1)
    if bmode:
        p["BMODE"] = bmode
    fb = ka * la * 8
    if data == "one":
        p["FREE_ONE_SYMBOLIC"] = 1
        fb = la * 8 + 2
    fb += 65 * (8 + ra + len(sub))
    n = max(ka + ra, kb + rb)
    unwind = max(n1a * ka, n1b * kb, 2 * n, la, lb, 16, (ka + ra) * ka, (kb + rb) * kb) + n + 12
    flags = ("--object-bits", "12") + ((("--max-field-sensitivity-array-size", "256") if use28 else ()))
    return core.Query("C12", "interleave.c", p, lib_defs=lib_defs, remove=remove, unwind=unwind, flags=flags, timeout=timeout, mem_gb=14, free_bits=fb)


def build(tier):
    A = [(LDPC, 3, 3, 5, 0, 3, 1), (LDPC, 3, 4, 1, 0, 4, 1), (RS2M, 2, 2, 2, 4, 0, 0), (RS2M, 2, 2, 1, 8, 0, 0), (RS28, 2, 2, 1, 8, 0, 0)]
    B = [(LDPC, 2, 3, 3, 0, 3, 7), (RS2M, 2, 2, 3, 4, 0, 0), (RS28, 1, 2, 2, 8, 0, 0), (LDPC, 3, 3, 5, 0, 3, 1)]
    if tier == "thorough":
        A += [(LDPC, 4, 3, 9, 0, 3, 2), (RS2M, 3, 2, 3, 8, 0, 0)]
        B += [(RS2M, 3, 3, 2, 8, 0, 0), (LDPC, 4, 4, 2, 0, 4, 3)]
    qs = []
    for ai, a in enumerate(A):
        n = a[1] + a[2]
        k = a[1]
        subs = [list(range(k, n)) + [0], [n - 1] + list(range(1, k)) + [k]]
        if tier == "thorough":
            subs += [list(range(n))[::-1], [0, 0, n - 1]]
        nsub_all_pairs = 2          # thorough: the two extra sequences only with the B of the same index (each query costs 2-6 min)
        for bi, b in enumerate(B):
            for si, sub in enumerate(subs):
                if tier == "quick" and ((ai + bi) % 2 and not (a[0] == LDPC and b[0] == LDPC) or si != (ai + bi) % len(subs)):
                    continue
                if tier == "thorough" and si >= nsub_all_pairs and bi != ai % len(B):
                    continue
                qs.append(iq(a, b, sub, data=("full" if a[0] == LDPC or k * a[3] <= 2 else "one")))
    # BMODE 1: a whole encoder life and a whole decoder life of B inside every window between two
    # calls of A (BMODE 0 above: B lives across A's calls).  A Reed-Solomon with B of every family
    # (file-scope state of the RS codecs: field size, tables, work buffers); LDPC A only in the
    # thorough tier (its shared state is the PRNG, which is a fresh symbolic value in every window
    # of both modes; each window then costs a whole LDPC life: ~4-6 min per query).
    B4, B8, B28, BL = (RS2M, 2, 2, 3, 4, 0, 0), (RS2M, 2, 2, 2, 8, 0, 0), (RS28, 1, 2, 2, 8, 0, 0), (LDPC, 2, 3, 3, 0, 3, 7)
    # the last two A: codes whose generator construction reduces exponents modulo 2^m-1
    # ((n-2)(k-1) >= 15), so that a field size or table borrowed from another session changes something
    pairs = [((RS2M, 2, 2, 2, 4, 0, 0), (B4, B8, B28, BL)), ((RS2M, 2, 2, 1, 8, 0, 0), (B4, B8, B28, BL)), ((RS28, 2, 2, 1, 8, 0, 0), (B4, B28, BL)),
             ((RS2M, 4, 3, 1, 4, 0, 0), (B8, B28)), ((RS2M, 4, 3, 1, 8, 0, 0), (B4, B28))]
    if tier == "thorough":
        pairs += [((LDPC, 3, 3, 5, 0, 3, 1), (B4, B28)), ((LDPC, 3, 4, 1, 0, 4, 1), (B8, B28)), ((RS2M, 3, 2, 3, 8, 0, 0), (B4, B8, B28, BL)),
                  ((RS2M, 4, 3, 1, 4, 0, 0), (B4, BL)), ((RS2M, 4, 3, 1, 8, 0, 0), (B8, BL))]
    for ai, (a, bs) in enumerate(pairs):
        n = a[1] + a[2]
        k = a[1]
        subs = [list(range(k, n)) + [0], [n - 1] + list(range(1, k)) + [k]]
        for bi, b in enumerate(bs):
            sub = subs[(ai + bi) % 2]
            q = iq(a, b, sub, data=("full" if a[0] == LDPC or k * a[3] <= 2 else "one"), bmode=1)
            q.object_bits = 12          # a whole life of B in every window allocates > 2^10 objects for the larger A
            qs.append(q)
    qs.sort(key=lambda q: -((3 if RS28 in (q.params["CODEC"], q.params["BCODEC"]) else 1) * (2 if q.params.get("BMODE") else 1)))
    meta = dict(
        units=["all translation units of src/ except lib_advanced/ (two sessions of different codecs live at once)"],
        functions_encoded=["the public API on two interleaved sessions", "process globals of_seed (of_rand.c) and of_verbosity (of_openfec_api.c)", "rand() stub"],
        bounds="session A in %s (encode all repairs, release, decode a submission sequence, of_finish_decoding, read the source table, release) run alone and run with (i) of_seed and of_verbosity set to fresh symbolic values and (ii) one step of the life of a session B in %s (create with verbosity 1, configure, encode, create decoder, configure, decode, finish, release, start over) executed between every two calls of A (BMODE 0: B lives across A's calls) or a whole encoder life and a whole decoder life of B executed between every two calls of A (BMODE 1: every call of B falls into every window of A), and the rand() stub counting across both sessions; all statuses, repair symbol bytes, completion after each call and decoded bytes of A must be identical for all source data of A and all values of the globals (2^64 x 2 per interleaving point)" % ([(CODEC_NAME[a[0]],) + a[1:4] for a in A], [(CODEC_NAME[b[0]],) + b[1:4] for b in B]),
        outside_bounds="threads (the property says same thread); more than two sessions at once; interleaving points inside B other than its step boundaries; other submission sequences",
        stubs=[RS_STUB, RS28_TABLES, "rand() = 0,1,2,... across both sessions"], assumptions=STD_ASSUMPTIONS, exhaustive=False)
    return qs, meta
