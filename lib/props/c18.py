"""C18 -- dense GF(2) matrix and linear solver agree with exact bit-matrix algebra."""
import core
from common import STD_ASSUMPTIONS

ONLY = ("ONLY", "of_mem.c", "of_matrix_dense.c", "of_hamming_weight.c", "of_ml_tool.c", "of_symbol.c", "of_tools.c")


def dq(op, dr, dc, d2r=None, d2c=None, plen=1, timeout=900):
    p = dict(DOP=op, DR=dr, DC=dc, PLEN=plen)
    fb = dr * dc + 24
    if d2r is not None:
        p.update(D2R=d2r, D2C=d2c)
        fb += d2r * d2c + 8 * max(d2r, d2c)
    if op == 6:
        fb = 32 + 64 + 8 + 160
    if op in (7, 8):
        fb = dr * dc + dc * plen * 8 + (dr if op == 8 else 0)
    return core.Query("C18", "dense.c", p, lib_exclude=ONLY, unwind=max(dr, dc, d2r or 0, d2c or 0, plen, 64, (1 << dc) if op in (7, 8) else 0) + 6,
                      free_bits=fb, timeout=timeout, mem_gb=10, flags=("--object-bits", "10"))


def build(tier):
    qs = []
    rows = (1, 2, 3)
    cols = (1, 31, 32, 33, 40, 64, 65) if tier == "thorough" else (1, 32, 33)
    for dr in rows:
        for dc in cols:
            if tier == "quick" and dr == 2 and dc not in (33,):
                continue
            if tier == "quick" and dr == 3 and dc == 32:
                continue
            qs.append(dq(1, dr, dc))
            qs.append(dq(2, dr, dc))
            # copy / copyrows / copycols into same-size and larger destinations
            for (d2r, d2c) in ((dr, dc), (dr + 1, dc + 1), (dr, dc + 32)):
                if tier == "quick" and (d2r, d2c) == (dr, dc + 32) and dc != 32:
                    continue
                qs.append(dq(3, dr, dc, d2r, d2c))
                qs.append(dq(4, dr, dc, d2r, d2c))
                qs.append(dq(5, dr, dc, d2r, dc if d2c > dc + 1 else d2c))
    qs.append(dq(6, 1, 1))
    solver = [(1, 1), (2, 2), (3, 2), (3, 3), (4, 3)] if tier == "quick" else [(1, 1), (2, 1), (2, 2), (3, 2), (3, 3), (4, 3)]      # (4,4) and beyond: no verdict within 20 min per query (measured), left out
    if tier == "quick":
        qs.append(dq(1, 1, 65))
        qs.append(dq(3, 1, 65, 2, 66))
    for p_, q_ in solver:
        for plen in (1, 9):
            if plen == 9 and tier == "quick" and (p_, q_) != (1, 1):
                continue
            if tier == "quick" and p_ * q_ > 9:
                continue
            if plen == 9 and tier == "thorough" and p_ * q_ > 4:
                continue          # len 9 beyond 2x2: > 20 min per query (measured)
            q = dq(7, p_, q_, plen=plen, timeout=1800 if tier == "quick" else 5400)
            q.mem_gb = 12 if tier == "quick" else 30
            qs.append(q)
        if p_ * q_ <= (4 if tier == "quick" else 9):          # (3,3): ~8 min; (4,3): no verdict within 20 min
            q = dq(8, p_, q_, plen=1, timeout=1800 if tier == "quick" else 5400)      # NULL = zero constant terms
            q.mem_gb = 12 if tier == "quick" else 30
            qs.append(q)
    meta = dict(
        units=["binary_matrix/of_matrix_dense.c", "binary_matrix/of_hamming_weight.c", "ml_decoding/of_ml_tool.c"],
        functions_encoded=["of_mod2dense_{allocate,free,get,set,flip,clear,copy,copyrows,copycols,xor_rows,row_weight,col_weight,row_is_empty}",
                           "of_hweight32, of_hweight32_table, of_hweight8_table, of_hweight32_naive, of_popcount_3, of_hweight_array",
                           "of_linear_binary_code_solve_dense_system (triangularize, forward elimination, backward substitution)"],
        bounds="dimensions %s x %s (word boundaries 31/32/33, 64/65), destinations of the same size, one larger in both directions, and one word wider; every matrix bit and every argument (positions, row/column index vectors) symbolic; popcounts over all 2^32 / 2^64 arguments; solver on p x q in %s (quick: up to 3x3, len 1; NULL-constant family up to 2x2 [thorough 3x3]; len 9 only up to 2x2 in thorough, 1x1 in quick) with every matrix bit and right-hand sides built from a fully symbolic hidden solution (consistent systems, as the decoder builds them; len 1 and 9): OK iff full column rank (no non-zero kernel vector, all 2^q-1 checked symbolically), FAILURE otherwise, and on OK the returned symbols equal the hidden solution; a second family passes a solver-chosen subset of the all-zero right-hand sides as NULL, as the ML decoder does" % (rows, cols, solver),
        outside_bounds="larger dimensions; sequences of more than the two or three operations each query chains; for copycols into a taller destination the extra rows are not asserted; ",
        stubs=[], assumptions=STD_ASSUMPTIONS[:2] + ["the bit model is filled through of_mod2dense_set and cross-checked through of_mod2dense_get for every bit before and after each operation"],
        exhaustive=False)
    return qs, meta
