"""C10 -- status codes and queries tell the truth about decoding progress."""
from cycles import *

EN = ("C10", "C01")


def build(tier):
    qs = []
    cfgs = [(2, 3, 3, 1), (3, 3, 3, 1)] if tier == "quick" else [(2, 3, 3, 1), (3, 3, 3, 1), (3, 4, 4, 1), (4, 3, 3, 1), (4, 4, 3, 2)]
    for ci, cfg in enumerate(cfgs):
        k, r, n1, sd = cfg
        n = k + r
        for pi, pat in enumerate(all_patterns(n)):
            combos = [(0, 1, pi % 5), (1, 1, 0)] if tier == "quick" else [(0, 1, 0), (0, 1, 3), (0, 1, 4), (1, 1, 0), (0, 0, 1)]
            for api, fin, var in combos:
                qs.append(ldpc_cycle("C10", cfg, pat, (1, 9)[pi % 2], api, fin, var, EN))
    rs = [(4, 2, 2, "full"), (4, 3, 2, "one"), (8, 2, 2, "full")] if tier == "quick" else \
         [(4, 2, 2, "full"), (4, 3, 2, "one"), (4, 3, 3, "one"), (4, 2, 4, "one"), (8, 2, 2, "full"), (8, 3, 2, "one"), (8, 2, 3, "one")]
    for m, k, r, data in rs:
        n = k + r
        for pi, pat in enumerate(all_patterns(n)):
            for api in (0, 1):
                ex = dict(SECOND_FINISH=1) if pi % 2 else None
                qs.append(rs_cycle("C10", RS2M, k, r, (1, 3)[pi % 2] if data == "full" else 5, m, pat, api, 1, (pi + 3 * api) % 5, EN + ("C02",), data=data, extra=ex))
    meta = dict(
        units=["src/lib_common/of_openfec_api.c", "src/lib_stable/ldpc_staircase/of_ldpc_staircase_api.c", "ml_decoding/of_ml_decoding.c", "it_decoding/of_it_decoding.c", "src/lib_stable/reed-solomon_gf_2_m/of_reed-solomon_gf_2_m_api.c"],
        functions_encoded=["of_decode_with_new_symbol", "of_set_available_symbols", "of_finish_decoding", "of_is_decoding_complete", "of_get_source_symbols_tab"],
        bounds="LDPC (k,r,N1,seed) in %s and RS GF(2^m) (m,k,r) in %s: every received set, both APIs, orders {index, reverse, rotation, duplicated, late duplicate}; asserted after every call: submission calls return OF_STATUS_OK; finish==OK iff complete afterwards, finish==FAILURE iff not; complete iff the source table succeeds with all k entries non-NULL; complete never reverts (extra symbols, duplicates, RS: second finish); every source symbol submitted while unknown comes back as the very pointer submitted. Includes 'complete before of_finish_decoding' for every codec" % (cfgs, [x[:3] for x in rs]),
        outside_bounds="codec 1 decoding (no verdict under CBMC); calls after a successful LDPC of_finish_decoding (the parity-check matrix is gone by then; submitting more symbols or finishing again is not exercised and not claimed); larger codes",
        stubs=[RS_STUB], assumptions=STD_ASSUMPTIONS, exhaustive=False)
    return qs, meta
