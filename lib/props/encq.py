"""Query builder for harness/enc.c."""
from common import *
import ref


def rows_to_masks(rows):
    return [sum(1 << e for e in row) for row in rows]


def enc_query(prop, codec, k, r, ln, m=8, n1=3, seed=1, role=1, en=(), data="full", null_slot=False, havoc=False,
              with_matrix=True, extra=None, timeout=600):
    lib_defs, remove, excl, flags = lib_cfg(codec)
    p = dict(CODEC=codec, PK=k, PR=r, PLEN=ln, ROLE=role)
    n = k + r
    if codec == RS2M:
        p["PM"] = m
    if codec in (RS28, RS2M):
        p["STUB_KERNELS"] = 1
        g = ref.rs_generator(k, n, m if codec == RS2M else 8)
        p["GREF_INIT"] = "{" + ",".join("{" + ",".join(str(x) for x in row) + "}" for row in g[k:]) + "}"
    if codec == LDPC:
        p["PN1"] = n1
        p["PSEED"] = seed
        if not (extra and "EXP_REJECT" in extra):
            rows, extra_added = ref.ldpc_matrix(k, r, n1, seed)
            p["HROWS_INIT"] = "{" + ",".join("0x%xu" % x for x in rows_to_masks(rows)) + "}"
            p["EXP_NULL"] = int(n1 % 2 == 0 and not extra_added)
    for e in en:
        p["EN_" + e] = 1
    fb = k * ln * 8
    if data == "one":
        p["FREE_ONE_SYMBOLIC"] = 1
        fb = ln * 8 + max(1, (k - 1).bit_length())
    if null_slot:
        p["NULL_SLOT"] = 1
    if havoc:
        p["HAVOC_GLOBALS"] = 1
        fb += 66
    if extra:
        p.update(extra)
    unwind = max(n1 * k if codec == LDPC else 0, n * 2, ln, 16) + n + 12
    if codec in (RS28, RS2M):
        unwind = max(unwind, n * k + 4)
    return core.Query(prop, "enc.c", p, lib_defs=lib_defs, remove=remove, lib_exclude=excl, unwind=unwind,
                      flags=("--object-bits", "12") + tuple(flags), timeout=timeout, mem_gb=10, free_bits=fb)
