"""C04 -- LDPC-Staircase streaming decoding = peeling closure, for any arrival order."""
import itertools
from cycles import *
import ref

EN = ("C04", "C01")


def stream_query(cfg, order, ln):
    k, r, n1, sd = cfg
    masks = ldpc_prefix_masks(k, r, n1, sd, order)
    ex = dict(EXP_PREFIX_INIT="{" + ",".join("0x%xu" % m for m in masks) + "}")
    return dec_query("C04", LDPC, k, r, ln, order, n1=n1, seed=sd, api=0, finish=0, en=EN, extra=ex)


def build(tier):
    qs = []
    cfgs = [(2, 3, 3, 1), (3, 3, 3, 1), (3, 4, 4, 1), (4, 3, 3, 1), (3, 5, 3, 1)] if tier == "quick" else \
           [(2, 3, 3, 1), (3, 3, 3, 1), (3, 4, 4, 1), (4, 3, 3, 1), (2, 4, 4, 2), (4, 4, 3, 2), (1, 3, 3, 1)]
    for ci, cfg in enumerate(cfgs):
        k, r, n1, sd = cfg
        n = k + r
        if tier == "thorough" and n <= 6:
            orders = [list(p) for p in itertools.permutations(range(n))]
            if n == 6:
                orders = orders[::2]
        else:
            orders = [p for p, _ in ref.chain_cover(n)]
        for oi, o in enumerate(orders):
            qs.append(stream_query(cfg, o, (1, 9)[oi % 2]))
            if tier == "quick" and oi % 2:
                continue
            d = [x for e in o for x in (e, e)]          # every symbol immediately duplicated
            qs.append(stream_query(cfg, d, (1, 9)[(oi + 1) % 2]))
    meta = dict(
        units=["src/lib_common/linear_binary_codes_utils/it_decoding/of_it_decoding.c", "src/lib_stable/ldpc_staircase/of_ldpc_staircase_api.c", "binary_matrix/of_matrix_sparse.c"],
        functions_encoded=["of_decode_with_new_symbol -> of_linear_binary_code_decode_with_new_symbol (recursive peeling)", "of_is_decoding_complete", "of_get_source_symbols_tab"],
        bounds="(k,r,N1,seed) in %s; arrival orders: a symmetric-chain cover of the subset lattice (C(n,n/2) permutations: every subset of the n symbols is the received set after some prefix)%s, each also with every symbol immediately duplicated; after EVERY call the available-source mask and of_is_decoding_complete are compared with the peeling closure of the prefix computed on the reference matrix; all source bytes symbolic and every available symbol compared with the source" % (cfgs, " / all n! permutations for n<=5, half of them for n=6" if tier == "thorough" else ""),
        outside_bounds="orders outside the family for n>=7; larger codes. When the decoder reports the last repair symbol as null (even N1) it is counted as received from the start, as the decoder pre-injects it",
        stubs=[], assumptions=STD_ASSUMPTIONS, exhaustive=False)
    return qs, meta
