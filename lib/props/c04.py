"""C04 -- LDPC-Staircase streaming decoding = peeling closure, for any arrival order."""
import itertools
from cycles import *
import ref

EN = ("C04", "C01")


def stream_query(cfg, order, ln):
    k, r, n1, sd = cfg
    masks = ldpc_prefix_masks(k, r, n1, sd, order)
    ex = dict(EXP_PREFIX_INIT="{" + ",".join("0x%xu" % m for m in masks) + "}")
    return dec_query("C04", LDPC, k, r, ln, order, n1=n1, seed=sd, api=0, finish=0, en=EN, extra=ex)


def build(tier):
    qs = []
    cfgs = [(2, 3, 3, 1), (3, 3, 3, 1), (3, 4, 4, 1), (4, 3, 3, 1), (3, 5, 3, 1)] if tier == "quick" else \
           [(2, 3, 3, 1), (3, 3, 3, 1), (3, 4, 4, 1), (4, 3, 3, 1), (2, 4, 4, 2), (4, 4, 3, 2), (1, 3, 3, 1)]
    for ci, cfg in enumerate(cfgs):
        k, r, n1, sd = cfg
        n = k + r
        if tier == "thorough" and n <= 6:
            orders = [list(p) for p in itertools.permutations(range(n))]
            if n == 6:
                orders = orders[::2]
        else:
            orders = [p for p, _ in ref.chain_cover(n)]
        # order-dependent behaviour: chain covers fix the prefix SETS, not the orders.  Add (a) every subset of
        # the repair symbols first (index order) followed by the source symbols in reverse / index order, so that a
        # late source symbol resolves several equations at once, and (b) random permutations (VERIF_SEED).
        import os, random
        rnd = random.Random(int(os.environ.get("VERIF_SEED", "0") or 0) * 1000 + ci)
        fam = []
        if n > 5 or tier == "quick":
            reps = list(range(k, n))
            for mask in range(1, 1 << r):
                sub = [reps[i] for i in range(r) if mask >> i & 1]
                if len(sub) < 2:
                    continue
                fam.append(sub + list(range(k))[::-1])
                if tier == "thorough":
                    fam.append(sub + list(range(k)))
            for _ in range(12 if tier == "quick" else 60):
                perm = list(range(n))
                rnd.shuffle(perm)
                fam.append(perm)
        for oi, o in enumerate(fam):
            qs.append(stream_query(cfg, o, (1, 9)[oi % 2]))
        for oi, o in enumerate(orders):
            qs.append(stream_query(cfg, o, (1, 9)[oi % 2]))
            if tier == "quick" and oi % 2:
                continue
            d = [x for e in o for x in (e, e)]          # every symbol immediately duplicated
            qs.append(stream_query(cfg, d, (1, 9)[(oi + 1) % 2]))
    meta = dict(
        units=["src/lib_common/linear_binary_codes_utils/it_decoding/of_it_decoding.c", "src/lib_stable/ldpc_staircase/of_ldpc_staircase_api.c", "binary_matrix/of_matrix_sparse.c"],
        functions_encoded=["of_decode_with_new_symbol -> of_linear_binary_code_decode_with_new_symbol (recursive peeling)", "of_is_decoding_complete", "of_get_source_symbols_tab"],
        bounds="(k,r,N1,seed) in %s; arrival orders: a symmetric-chain cover of the subset lattice (C(n,n/2) permutations: every subset of the n symbols is the received set after some prefix)%s, each also with every symbol immediately duplicated; plus, for order dependence, every subset (>= 2) of the repair symbols first followed by the source symbols in reverse order, and 12 (60) random permutations per configuration; after EVERY call the available-source mask and of_is_decoding_complete are compared with the peeling closure of the prefix computed on the reference matrix; all source bytes symbolic and every available symbol compared with the source" % (cfgs, " / all n! permutations for n<=5, half of them for n=6" if tier == "thorough" else ""),
        outside_bounds="orders outside the family for n>=7; larger codes. When the decoder reports the last repair symbol as null (even N1) it is counted as received from the start, as the decoder pre-injects it",
        stubs=[], assumptions=STD_ASSUMPTIONS, exhaustive=False)
    return qs, meta
