"""C03 -- LDPC-Staircase of_finish_decoding is ML-complete: succeeds iff recoverable."""
from cycles import *

EN = ("C03", "C01")


def build(tier):
    qs = []
    cfgs = [(1, 3, 3, 1), (2, 3, 3, 1), (3, 3, 3, 1), (3, 4, 4, 1)] if tier == "quick" else [(1, 3, 3, 1), (2, 3, 3, 1), (3, 3, 3, 1), (3, 4, 4, 1), (4, 3, 3, 1), (2, 4, 4, 2), (4, 4, 3, 2), (2, 6, 3, 1), (3, 6, 5, 1), (1, 5, 5, 2)]
    for ci, cfg in enumerate(cfgs):
        k, r, n1, sd = cfg
        n = k + r
        for pi, pat in enumerate(all_patterns(n)):
            if tier == "quick":
                combos = [(pi % 2, pi % 3, (0, 1, 3)[(pi // 2) % 3])] if n > 5 else [(0, pi % 3, 0), (1, 0, (1, 3)[pi % 2])]
            else:
                combos = [(0, 0, 0), (0, 1, 1), (0, 2, 3), (1, 0, 3), (1, 0, 1)] if n <= 7 else [(pi % 2, pi % 3, (0, 1, 3)[pi % 3])]
            for api, var, rm in combos:
                qs.append(ldpc_cycle("C03", cfg, pat, (1, 9)[pi % 2], api, 1, var, EN, rand_mode=rm))
    meta = dict(
        units=["src/lib_stable/ldpc_staircase/*.c", "src/lib_common/linear_binary_codes_utils/ml_decoding/*.c", "it_decoding/of_it_decoding.c",
               "binary_matrix/of_matrix_{sparse,dense,convert}.c"],
        functions_encoded=["of_finish_decoding -> of_linear_binary_code_finish_decoding_with_ml, of_linear_binary_code_solve_dense_system", "of_decode_with_new_symbol", "of_set_available_symbols"],
        bounds="(k,r,N1,seed) in %s: every one of the 2^n received sets (fewer than k and all n included), both submission APIs, orders {index, reverse, rotation}, rand() of the repair-injection shuffle = three concrete sequences (all-zero, 0,1,2.., 3,10,17..); all source bytes symbolic; oracle: rank over GF(2) of the unknown symbols' columns of the reference RFC 5170 matrix (lib/ref.py), equal to 'uniquely determined' because staircase columns are independent" % (cfgs,),
        outside_bounds="codes beyond the grid; orders beyond the three per received set; rand() sequences beyond the three (a symbolic rand() makes the injection order symbolic and the pointer-rich simplification explodes: no verdict in 5 min even for r=3); the rank oracle is as independent as my RFC 5170 transcription (cross-checked against the library's matrix by C05)",
        stubs=["rand() returns harness-chosen values (harness/env.h)"], assumptions=STD_ASSUMPTIONS, exhaustive=False)
    return qs, meta
