"""C03 -- LDPC-Staircase of_finish_decoding is ML-complete: succeeds iff recoverable."""
from cycles import *

EN = ("C03", "C01")


def build(tier):
    qs = []
    import os
    seed = int(os.environ.get("VERIF_SEED", "0") or 0)
    cfgs = [(1, 3, 3, 1), (2, 3, 3, 1), (3, 3, 3, 1)] if tier == "quick" else [(1, 3, 3, 1), (2, 3, 3, 1), (3, 3, 3, 1), (3, 4, 4, 1), (4, 3, 3, 1), (2, 4, 4, 2), (4, 4, 3, 2), (1, 5, 5, 2)]
    for ci, cfg in enumerate(cfgs):
        k, r, n1, sd = cfg
        n = k + r
        for pi, pat in enumerate(all_patterns(n)):
            if tier == "quick":
                combos = [(pi % 2, pi % 3, (0, 1, 3)[(pi // 2) % 3])] if n > 5 else [(0, pi % 3, 0), (1, 0, (1, 3)[pi % 2])]
            else:
                combos = [(0, 0, 0), (0, 1, 1), (0, 2, 3), (1, 0, 3), (1, 0, 1)] if n <= 7 else [(pi % 2, pi % 3, (0, 1, 3)[pi % 3])]
            for api, var, rm in combos:
                qs.append(ldpc_cycle("C03", cfg, pat, (1, 9)[pi % 2], api, 1, var, EN, rand_mode=rm))
    # larger configurations: the received sets are chosen with the reference model -- EVERY set for which the
    # Gaussian elimination must succeed (the rare, interesting class: 30-35 of 256-512), in index order through
    # both APIs and in reverse order, plus a sample of the peeling-complete and the unrecoverable sets
    big = [(3, 4, 4, 1), (4, 4, 3, 1), (4, 5, 4, 1)] if tier == "quick" else [(4, 4, 3, 1), (4, 5, 4, 1), (5, 4, 3, 7), (2, 6, 3, 1), (3, 6, 5, 1), (5, 5, 4, 3)]
    for ci, cfg in enumerate(big):
        cl = ldpc_classes(cfg)
        for pi, pat in enumerate(cl["ml-ok"]):
            for api, var, rm in ((0, 0, 0), (1, 0, 1), (0, 1, 3)):
                qs.append(ldpc_cycle("C03", cfg, pat, (1, 9)[pi % 2], api, 1, var, EN, rand_mode=rm))
        for name in ("it", "ml-fail"):
            for pi, pat in enumerate(pick(cl[name], seed * 7 + ci, 24 if tier == "quick" else 120)):
                qs.append(ldpc_cycle("C03", cfg, pat, (1, 9)[pi % 2], pi % 2, 1, pi % 3, EN, rand_mode=(0, 1, 3)[pi % 3]))
    meta = dict(
        units=["src/lib_stable/ldpc_staircase/*.c", "src/lib_common/linear_binary_codes_utils/ml_decoding/*.c", "it_decoding/of_it_decoding.c",
               "binary_matrix/of_matrix_{sparse,dense,convert}.c"],
        functions_encoded=["of_finish_decoding -> of_linear_binary_code_finish_decoding_with_ml, of_linear_binary_code_solve_dense_system", "of_decode_with_new_symbol", "of_set_available_symbols"],
        bounds="(k,r,N1,seed) in %s: every one of the 2^n received sets; for the larger configurations BIGCFG every received set that needs a successful Gaussian elimination (chosen with the reference model) plus samples of the other classes; for all of them (fewer than k and all n included), both submission APIs, orders {index, reverse, rotation}, rand() of the repair-injection shuffle = three concrete sequences (all-zero, 0,1,2.., 3,10,17..); all source bytes symbolic; oracle: rank over GF(2) of the unknown symbols' columns of the reference RFC 5170 matrix (lib/ref.py), equal to 'uniquely determined' because staircase columns are independent".replace("BIGCFG", str(big)) % (cfgs,),
        outside_bounds="codes beyond the grid; orders beyond the three per received set; rand() sequences beyond the three (a symbolic rand() makes the injection order symbolic and the pointer-rich simplification explodes: no verdict in 5 min even for r=3); the rank oracle is as independent as my RFC 5170 transcription (cross-checked against the library's matrix by C05)",
        stubs=["rand() returns harness-chosen values (harness/env.h)"], assumptions=STD_ASSUMPTIONS, exhaustive=False)
    return qs, meta
