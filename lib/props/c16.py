"""C16 -- 2D-parity codec: product-parity structure, sound and complete erasure recovery."""
import itertools
import math
import os
import core
from cycles import *
import encq
import ref


def dims(k, r):
    """(rows_of_grid, row_length) the codec should pick for (k, r), or None if it must reject."""
    n = k + r
    if r >= n:
        return None
    d = math.isqrt(n)
    while d > 0:
        if k % d == 0 and d + k // d == r:
            return (k // d, d)          # k//d consecutive runs of d sources each
        d -= 1
    return None


def rows_2d(k, r):
    D, L = dims(k, r)
    rows = []
    for i in range(D):
        rows.append({k + i} | {i * L + j for j in range(L)})
    for c in range(L):
        rows.append({k + D + c} | {L * j + c for j in range(D)})
    return rows


def enc2d(k, r, ln, role=1, reject=False):
    lib_defs, remove, excl, flags = lib_cfg(P2D)
    p = dict(CODEC=P2D, PK=k, PR=r, PLEN=ln, ROLE=role, EN_C16=1)
    if reject:
        p["EXP_REJECT"] = 1
    else:
        p["HROWS_INIT"] = "{" + ",".join("0x%xu" % x for x in encq.rows_to_masks(rows_2d(k, r))) + "}"
    return core.Query("C16", "enc.c", p, lib_defs=lib_defs, lib_exclude=excl, unwind=2 * (k + r) + ln + 20,
                      flags=("--object-bits", "12"), timeout=600, mem_gb=8, free_bits=k * ln * 8)


def dec2d(k, r, pat, ln, api, variant):
    rows = rows_2d(k, r)
    n = k + r
    closure = ref.peel(rows, set(pat))
    ex = dict(EXP_FIN_OK=int(ref.ml_decodable(rows, set(pat), n)))
    sub = orders_for(pat, variant if api == 0 else 0)
    return dec_query("C16", P2D, k, r, ln, sub, api=api, finish=1, en=("C16",), extra=ex)


def build(tier):
    qs = []
    seed = int(os.environ.get("VERIF_SEED", "0") or 0)
    # (a) + (b): every (k, r) with k <= 16, n <= 24: accepted iff a d x l grid exists; structure; encoder equations
    for k in range(1, 17):
        for r in range(1, 25 - k):
            dm = dims(k, r)
            if dm is None:
                if tier == "thorough" or (k * 7 + r) % 8 == seed % 8:
                    qs.append(enc2d(k, r, 1, role=3, reject=True))
            else:
                qs.append(enc2d(k, r, (1, 9)[(k + r) % 2], role=(1, 3)[(k + r) % 2]))
    # (c) decoder: all received sets of the small accepted codes, 0/1/2 losses of the larger ones
    small = [(1, 2), (2, 3), (3, 4)] if tier == "quick" else [(1, 2), (2, 3), (3, 4), (4, 4), (4, 5)]
    for k, r in small:
        for pi, pat in enumerate(all_patterns(k + r)):
            if tier == "quick" and k + r > 5 and pi % 2 == seed % 2:
                continue
            for api in ((0, 1) if tier == "thorough" or k + r <= 3 else (pi % 2,)):
                qs.append(dec2d(k, r, pat, (1, 9)[pi % 2], api, pi % 5))
    larger = [(4, 4), (6, 5), (9, 6)] if tier == "quick" else [(6, 5), (8, 6), (9, 6), (12, 7), (16, 8)]
    for k, r in larger:
        n = k + r
        losses = [()] + [(i,) for i in range(n)] + list(itertools.combinations(range(n), 2))
        if tier == "quick":
            losses = losses[: n + 1] + pick(losses[n + 1:], seed + n, 10)
        for pi, lost in enumerate(losses):
            pat = [e for e in range(n) if e not in lost]
            qs.append(dec2d(k, r, pat, (1, 8)[pi % 2], pi % 2, pi % 3))
    meta = dict(
        units=["src/lib_stable/2d_parity_matrix/of_2d_parity_api.c", "src/lib_common/linear_binary_codes_utils/of_create_pchk.c", "it_decoding/of_it_decoding.c", "ml_decoding/*.c", "binary_matrix/*.c"],
        functions_encoded=["of_2d_parity_set_fec_parameters -> of_create_2D_pchk_matrix / of_fill_2D_pchk_matrix", "of_2d_parity_build_repair_symbol", "of_2d_parity_decode_with_new_symbol / set_available_symbols / finish_decoding", "sqrt stub (exact on small integers)"],
        bounds="(a) every (k, n-k) with 1 <= k <= 16, n <= 24: of_set_fec_parameters accepts exactly those for which the constructor's search finds a d x l grid (the rejected ones: %s), and for each accepted one the session's matrix, traversed entry by entry, is the product single-parity structure (source s in run check s div l and in stride check s mod l, each check with its own repair symbol); (b) encoder sessions: every check sums to zero over the built codeword for all source data, sources untouched; (c) decoder, both submission APIs + of_finish_decoding, all source data: never a wrong symbol, complete iff the reference rank oracle says the received set determines the block; received sets: all 2^n for %s, all 0/1/2-loss sets%s for %s; leak check at release in every query" % ("all" if tier == "thorough" else "one in eight", small, " (sampled pairs in quick)" if tier == "quick" else "", larger),
        outside_bounds="all 2^24 received sets of (16,8); early release at every cut point is exercised for the other codecs (C08) and only at the end here",
        stubs=["sqrt() replaced by an exact integer stub on 0..4096 (CBMC's model is a constrained nondeterministic value)"], assumptions=STD_ASSUMPTIONS, exhaustive=False)
    return qs, meta
