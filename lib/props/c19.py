"""C19 -- the RFC 5170 PRNG is the Park-Miller minimal standard."""
import core
from common import STD_ASSUMPTIONS


def pq(mode, lo=1, hi=15, timeout=900, unwind=4):
    p = dict(PRNG_MODE=mode)
    if mode == 4:
        p.update(MAXV_MIN=lo, MAXV_MAX=hi)
    fb = {1: 31, 2: 128, 3: 0, 4: 31 + max(1, hi.bit_length())}[mode]
    return core.Query("C19", "prng.c", p, lib_exclude=("ONLY", "of_rand.c"), unwind=(10002 if mode == 3 else unwind),
                      free_bits=fb, timeout=timeout, mem_gb=12, leak=False, flags=("--object-bits", "8"))


def build(tier):
    qs = [pq(1, timeout=1500), pq(2), pq(3), pq(4, 1, 15)]
    if tier == "thorough":
        for lo, hi in ((16, 63), (64, 127), (128, 191), (192, 255)):
            qs.append(pq(4, lo, hi, timeout=3000))
    meta = dict(
        units=["src/lib_common/of_rand.c"],
        functions_encoded=["of_rfc5170_rand", "of_rfc5170_srand"],
        bounds="state: all 2^31-2 values in one query; seeding: all 2^64 arguments x all 2^64 prior states; scaling: all states x maxv in 1..%d; 10,000 concrete steps" % (15 if tier == "quick" else 255),
        outside_bounds="scaling for maxv above the bound (IEEE double multiply/divide of two free operands: no back end here decides maxv<=4095 in 20 min; the matrix construction can request up to 255*50000)",
        stubs=[], assumptions=["CBMC's IEEE-754 double semantics (round-to-nearest-even) for the scaling expression", "fprintf is a no-op"],
        exhaustive=False)
    return qs, meta
