"""C08 -- a released session leaves nothing behind: no leak, no double free."""
from cycles import *

EN = ("C01",)


def cuts(q_builder, nsteps, tier):
    for cut in range(0, nsteps + 1):
        yield q_builder(cut)


def build(tier):
    qs = []
    ld_cfgs = [(3, 3, 3, 1), (3, 4, 4, 1), (4, 3, 3, 1)] if tier == "quick" else [(2, 3, 3, 1), (3, 3, 3, 1), (3, 4, 4, 1), (4, 3, 3, 1), (2, 4, 4, 2)]
    for cfg in ld_cfgs:
        k, r, n1, sd = cfg
        n = k + r
        pats = all_patterns(n)
        # classify received sets with the reference model: peeling-complete, ML-complete, ML-failure, partial
        chosen = {}
        for pat in pats:
            e = ldpc_expect(k, r, n1, sd, pat)
            full = (1 << k) - 1
            unk = [c for c in range(n) if c not in e["closure"]]
            live_rows = [row for row in e["rows"] if any(c in unk for c in row)]
            if e["pre_mask"] == full:
                cls = "it"
            elif e["ml_ok"]:
                cls = "ml"
            elif len(live_rows) >= len(unk):
                cls = "fail-in-gauss" + ("-partial" if e["pre_mask"] else "")      # enough equations, rank deficient: fails inside the elimination
            else:
                cls = "partial" if e["pre_mask"] else "fail"
            chosen.setdefault(cls, []).append(pat)
        for cls, lst in sorted(chosen.items()):
            take = lst[:: max(1, len(lst) // (1 if tier == "quick" else 5))][: (1 if tier == "quick" else 5)]
            if cls.startswith("fail-in-gauss") and tier == "quick":
                # prefer systems with more equations than unknowns, and two different shapes
                byshape = sorted(lst, key=lambda p: (len(p), p))
                take = [byshape[0], byshape[-1]] if len(byshape) > 1 else byshape
            for pi, pat in enumerate(take):
                for api in ((0, 1) if tier == "thorough" else ((len(pat) + n1) % 2,)):
                    nsteps = 3 + (len(pat) if api == 0 else 1) + 1 + 1      # +1: the callback registration step when a callback is used
                    for cut in range(0, nsteps + 1):                        # cut == nsteps: nothing is cut, the whole cycle runs
                        if tier == "quick" and 3 < cut < nsteps - 2 and (cut + pi) % 2:
                            continue                                        # quick: every other mid-submission cut
                        for role in ((0, 1) if cut >= nsteps - 1 or tier == "thorough" else (0,)):
                            qs.append(ldpc_cycle("C08", cfg, pat, (1, 9)[pi % 2], api, 1, (1 + pi) % 3, EN, cb=(0, 1, 2, 3)[(cut + pi) % 4],
                                                 extra=dict(CUT=cut, ROLE_BOTH=role, BOTH_ENCODES=1), expect=False))
    rs = [(RS2M, 4, 2, 2), (RS2M, 8, 2, 2), (RS28, 8, 2, 2)] if tier == "quick" else [(RS2M, 4, 2, 2), (RS2M, 4, 3, 2), (RS2M, 8, 2, 2), (RS28, 8, 2, 2), (RS28, 8, 2, 1)]
    for codec, m, k, r in rs:
        n = k + r
        pats = [[], list(range(k)), list(range(r, n)), list(range(n)), [n - 1], [0] + list(range(k, n))]
        if tier == "quick":
            pats = [list(range(r, n)), [n - 1], [0] + list(range(k, n))]
        for pi, pat in enumerate(pats):
            for api in (0, 1):
                nsteps = 3 + (len(pat) if api == 0 else 1) + 1 + 1
                for cut in range(0, nsteps + 1):
                    if codec == RS28 and tier == "quick" and (cut not in (2, nsteps) or pi != 0):
                        continue
                    for role in ((0, 1) if cut >= nsteps - 2 else (0,)):
                        if codec == RS28 and tier == "quick" and role == 0 and cut == nsteps and api == 1:
                            continue
                        cbm = (0, 1, 2)[(cut + pi) % 3] if not (codec == RS28 and cut == nsteps) else (1, 3)[role]
                        qs.append(rs_cycle("C08", codec, k, r, 3, m, pat, api, 1, pi % 2, EN, cb=cbm,
                                           data="one", extra=dict(CUT=cut, ROLE_BOTH=role, BOTH_ENCODES=1), timeout=900))
    meta = dict(
        units=["src/lib_common/of_openfec_api.c", "src/lib_stable/*/of_*_api.c", "it_decoding/of_it_decoding.c", "ml_decoding/*.c", "binary_matrix/of_matrix_{sparse,dense}.c", "galois_field_codes_utils/of_galois_field_code.c", "reed-solomon_gf_2_8/of_reed-solomon_gf_2_8.c"],
        functions_encoded=["of_release_codec_instance and the per-codec release functions", "every allocation site reached by the API cycle"],
        bounds="CBMC --memory-leak-check plus free()-precondition checks (double free, free of non-heap) on the API cycle create -> set_fec_parameters -> set_callback_functions -> submissions -> of_finish_decoding, cut by of_release_codec_instance after every step (CUT = 0..last); the application then frees exactly what the API says it owns (decoded source symbols, its own buffers). LDPC %s with received sets of each class (peeling-complete, ML-complete, failure before / inside the Gaussian elimination, partial) chosen with the reference model, RS %s with 6 received sets; decoder-only instances and encoder+decoder instances that first build every repair symbol themselves; callbacks none/buffer/NULL/mix" % (ld_cfgs, [(CODEC_NAME[c], m, k, r) for c, m, k, r in rs]),
        outside_bounds="histories other than the cut cycle (e.g. release between two finish calls); allocation failure paths; larger codes",
        stubs=[RS_STUB, RS28_TABLES], assumptions=STD_ASSUMPTIONS + ["CBMC's leak check reports an allocated-and-unreachable-at-exit object chosen nondeterministically; with concrete control flow any single leaked object is found"], exhaustive=False)
    return qs, meta
