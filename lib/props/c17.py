"""C17 -- sparse GF(2) matrix is a set of (row, column) pairs under any operation sequence."""
import itertools
import core
from common import STD_ASSUMPTIONS

ONLY = ("ONLY", "of_mem.c", "of_matrix_sparse.c", "of_matrix_dense.c", "of_matrix_convert.c", "of_hamming_weight.c", "of_tools.c")
OPN = ["insert", "delete", "clear", "copy", "copyrows", "copycols", "dense_roundtrip", "copy_filled", "swap"]


def alphabet(sr, sc):
    ops = []
    for i in range(sr):
        for j in range(sc):
            ops.append((0, i, j))
    for i in range(sr):
        for j in range(sc):
            ops.append((1, i, j))
    for o in range(2, 9):
        ops.append((o, 0, 0))
    return ops


def sq(sr, sc, seq, block=2):
    p = dict(SR=sr, SC=sc, NOPS=len(seq), OPS_INIT="{" + ",".join("{%d,%d,%d}" % o for o in seq) + "}" if seq else "{{9,0,0}}")
    name = "sparse_seq.c:%dx%d:" % (sr, sc) + ";".join("%s(%d,%d)" % (OPN[o], a, b) if o < 2 else OPN[o] for o, a, b in seq)
    # the native replay keeps the small entry blocks (the hook only changes allocation granularity: a block-chain
    # defect needs > 1024 entries to show with the production block size)
    return core.Query("C17", "sparse_seq.c", p, name=name, lib_defs=("-DOPENFEC_VERIF_SPARSE_BLOCK=%d" % block,), lib_exclude=ONLY,
                      native_defs=("-DOPENFEC_VERIF", "-DOPENFEC_VERIF_SPARSE_BLOCK=%d" % block),
                      unwind=max(sr, sc, block, len(seq)) + 6, free_bits=0, timeout=300, mem_gb=6, flags=("--object-bits", "10"))


def build(tier):
    qs = []
    al = alphabet(2, 2)
    seqs = [()] + [(a,) for a in al] + list(itertools.product(al, al))
    if tier == "thorough":
        seqs += list(itertools.product(al, al, al))
    else:
        import os
        sd = int(os.environ.get("VERIF_SEED", "0") or 0)
        seqs += [t for i, t in enumerate(itertools.product(al, al, al)) if i % 6 == sd % 6]      # a sixth of the length-3 sequences
    for s in seqs:
        qs.append(sq(2, 2, list(s)))
    al23 = alphabet(2, 3)
    for s in [(a,) for a in al23] + (list(itertools.product(al23, al23)) if tier == "thorough" else []):
        qs.append(sq(2, 3, list(s)))
    # longer hand-picked histories: fill beyond one block, delete, recycle, clear, reuse, copy chains
    long = [
        [(0, 0, 0), (0, 0, 1), (0, 1, 0), (0, 1, 1), (1, 0, 1), (0, 0, 1), (2, 0, 0), (0, 1, 1), (0, 0, 0)],
        [(0, 1, 1), (0, 0, 1), (0, 1, 0), (3, 0, 0), (8, 0, 0), (0, 0, 0), (1, 1, 1), (4, 0, 0), (8, 0, 0), (0, 1, 1)],
        [(0, 0, 1), (0, 1, 0), (6, 0, 0), (8, 0, 0), (1, 0, 1), (0, 1, 1), (7, 0, 0), (5, 0, 0), (2, 0, 0), (0, 0, 0)],
    ]
    for s in long:
        qs.append(sq(2, 2, s))
        qs.append(sq(2, 2, s, block=8))
    meta = dict(
        units=["binary_matrix/of_matrix_sparse.c", "binary_matrix/of_matrix_convert.c", "binary_matrix/of_matrix_dense.c (conversion target)"],
        functions_encoded=["of_mod2sparse_{allocate,free,clear,insert,find,delete,copy,copyrows,copycols,copy_filled_matrix}", "of_mod2sparse_to_dense", "of_mod2dense_to_sparse", "of_alloc_entry (block allocation, free list)"],
        bounds="REDUCED FORM (DESIGN 4.C17): the operation sequence is a concrete parameter, so each query has zero free input bits and the solver decides the memory-safety (dereference of freed/NULL/out-of-object, leak at exit) and model-agreement VCs of that one path. Exhaustive over all sequences of length <= %d (quick: plus one sixth of the length-3 sequences, rotated by VERIF_SEED) on a 2x2 matrix over the alphabet {insert(i,j), delete(i,j), clear, copy, copyrows, copycols, dense round-trip, copy_filled_matrix, swap} (17 letters) and length <= %d on 2x3, entry block size 2 so that block allocation and free-list recycling occur, plus 3 hand-written histories of 9-10 operations at block sizes 2 and 8; after EVERY operation all row and column traversals, find() on every cell and idempotent insert are compared with the bit model of both matrices" % (3 if tier == "thorough" else 2, 2 if tier == "thorough" else 1),
        outside_bounds="symbolic operation sequences (one symbolic step on a 3x3 matrix costs 130 s, three give no verdict: every dereference of a symbolic link splits over all entries); longer sequences and larger matrices; the _opt copy variants and xor/swap rows (static helpers of a disabled decoder)",
        stubs=[], assumptions=STD_ASSUMPTIONS[:2] + ["entry block size 2 (or 8) through the OPENFEC_VERIF_SPARSE_BLOCK hook instead of 1024"],
        exhaustive=True, count_zero_free_bits=True,
        rule="one CBMC query per concrete operation sequence; non-trivial = a non-empty operation sequence whose end-of-harness witness is reached and that generated at least one verification condition (free_input_bits is 0 by design, see bounds)",
    )
    return qs, meta
