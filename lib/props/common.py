"""Shared query builders for the API-level harnesses."""
import itertools
import os
import subprocess

import core
import ref

RS28, RS2M, LDPC, P2D = 1, 2, 3, 5
CODEC_NAME = {1: "rs28", 2: "rs2m", 3: "ldpc", 5: "2d"}
BLOCK = ("-DOPENFEC_VERIF_SPARSE_BLOCK=8",)

_gf28_hdr = None


def gf28_tables_header():
    """Dump the codec-1 GF(2^8) tables produced by the *current* of_rs_init() natively and
    write them as static initialisers (hook 2).  C14 proves the dump equals the field."""
    global _gf28_hdr
    if _gf28_hdr:
        return _gf28_hdr
    d = os.path.join(core.scratch(), "gf28")
    os.makedirs(d, exist_ok=True)
    gen = os.path.join(d, "gen.c")
    with open(gen, "w") as f:
        f.write('#include "%s"\n' % os.path.join(core.REPO, core.RS28_C))
        f.write(r'''
#include <stdio.h>
int main(void){ int i,j; of_rs_init();
 printf("static const gf of_rs_gf_exp[2*GF_SIZE] = {"); for(i=0;i<2*GF_SIZE;i++) printf("%d,",of_rs_gf_exp[i]); printf("};\n");
 printf("static const int of_rs_gf_log[GF_SIZE+1] = {"); for(i=0;i<GF_SIZE+1;i++) printf("%d,",of_rs_gf_log[i]); printf("};\n");
 printf("static const gf of_rs_inverse[GF_SIZE+1] = {"); for(i=0;i<GF_SIZE+1;i++) printf("%d,",of_rs_inverse[i]); printf("};\n");
 printf("static const gf of_gf_mul_table[GF_SIZE+1][GF_SIZE+1] = {"); for(i=0;i<GF_SIZE+1;i++){ printf("{"); for(j=0;j<GF_SIZE+1;j++) printf("%d,",of_gf_mul_table[i][j]); printf("},\n"); } printf("};\n");
 printf("static int of_rs_initialized = 1;\n#define of_generate_gf() ((void)0)\n#define of_rs_init_mul_table() ((void)0)\n"); return 0; }
''')
    exe = os.path.join(d, "gen")
    r = core.sh(["gcc", "-w", "-O1", "-DOPENFEC_LITTLE_ENDIAN", "-DNDEBUG"] + core.cfg_inc() + ["-I", os.path.join(core.REPO, "src"),
                 "-I", os.path.dirname(os.path.join(core.REPO, core.RS28_C)), gen, "-o", exe])
    if r.returncode != 0:
        raise RuntimeError("gf28 table generator build failed:\n" + r.stderr[-2000:])
    out = subprocess.run([exe], stdout=subprocess.PIPE, text=True).stdout
    hdr = os.path.join(d, "gf28_tables.h")
    with open(hdr, "w") as f:
        f.write(out)
    _gf28_hdr = hdr
    return hdr


def gf28_rowptr_header():
    """Variant of the generated codec-1 table header for C13's ROWTAB abstraction: the
    multiplication table is replaced by an array of row pointers which the harness fills."""
    real = gf28_tables_header()
    out = os.path.join(os.path.dirname(real), "gf28_rowptr.h")
    if not os.path.exists(out):
        with open(real) as f, open(out, "w") as g:
            skipping = False
            for line in f:
                if line.startswith("static const gf of_gf_mul_table"):
                    g.write("static gf *of_gf_mul_table[GF_SIZE+1];   /* row pointers, filled by harness/kernels.c (ROWTAB) */\n")
                    skipping = not line.rstrip().endswith("};")
                    continue
                if skipping:
                    if line.rstrip().endswith("};"):
                        skipping = False
                    continue
                g.write(line)
    return out


def lib_cfg(codec):
    """(lib_defs, remove, lib_exclude, extra cbmc flags) for a codec-level query."""
    if codec == RS28:
        return (('-DOPENFEC_VERIF_GF28_TABLES="%s"' % gf28_tables_header(),), (core.KERNELS[3],), core.SUBSET[1],
                ("--max-field-sensitivity-array-size", "256"))
    if codec == RS2M:
        return ((), tuple(core.KERNELS[:3]), core.SUBSET[2], ())
    if codec == LDPC:
        return (BLOCK, (), core.SUBSET[3], ())
    if codec == P2D:
        return (BLOCK, (), core.SUBSET[5], ())
    raise ValueError(codec)


def init_list(xs):
    return "{" + ",".join(str(int(x)) for x in xs) + "}" if xs else "{0}"


def dec_query(prop, codec, k, r, ln, sub, m=8, n1=3, seed=1, api=0, finish=1, cb=0, en=(), data="full",
              extra=None, timeout=600, mem_gb=10, harness="dec_cycle.c", rand_mode=0):
    n = k + r
    lib_defs, remove, excl, flags = lib_cfg(codec)
    p = dict(CODEC=codec, PK=k, PR=r, PLEN=ln, API=api, FINISH=finish, CB=cb,
             NSUB=len(sub), SUB_INIT=init_list(sub))
    if codec == RS2M:
        p["PM"] = m
    if codec == LDPC:
        p["PN1"] = n1
        p["PSEED"] = seed
    if codec in (RS28, RS2M):
        p["STUB_KERNELS"] = 1
    for e in en:
        p["EN_" + e] = 1
    fb = 0
    if data == "full":
        fb = k * ln * 8
    elif data == "one":
        p["FREE_ONE_SYMBOLIC"] = 1
        fb = ln * 8 + max(1, (k - 1).bit_length())
    else:
        p["FREE_MASK"] = "0x%xu" % data
        fb = bin(data).count("1") * ln * 8
    if cb == 3:
        fb += k
    if rand_mode:
        p["VERIF_RAND_MODE"] = rand_mode
        if rand_mode == 2:
            fb += 8 * r
    if extra:
        p.update(extra)
    unwind = max(n1 * k if codec == LDPC else 0, n * 2, ln, 16) + n + 12
    if codec in (RS28, RS2M):
        unwind = max(unwind, n * k + 4)
    q = core.Query(prop, harness, p, lib_defs=lib_defs, remove=remove, lib_exclude=excl, unwind=unwind,
                   flags=("--object-bits", "12") + tuple(flags), timeout=timeout, mem_gb=mem_gb, free_bits=fb)
    return q


def subsets(n):
    for mask in range(1 << n):
        yield [i for i in range(n) if mask >> i & 1]


def ldpc_expect(k, r, n1, seed, known_list, last_null=None):
    """Expected behaviour of an LDPC-Staircase decoder from the reference matrix."""
    rows, extra = ref.ldpc_matrix(k, r, n1, seed)
    n = k + r
    null = (n1 % 2 == 0 and not extra)
    base = set(known_list)
    if null:
        base.add(n - 1)
    closure = ref.peel(rows, base)
    return dict(rows=rows, null=null, closure=closure, pre_mask=ref.src_mask(closure, k),
                ml_ok=ref.ml_decodable(rows, base, n), extra=extra)


def ldpc_prefix_masks(k, r, n1, seed, order):
    rows, extra = ref.ldpc_matrix(k, r, n1, seed)
    n = k + r
    null = (n1 % 2 == 0 and not extra)
    base = set([n - 1]) if null else set()
    out = []
    for e in order:
        base.add(e)
        out.append(ref.src_mask(ref.peel(rows, base), k))
    return out


def ldpc_configs(tier):
    if tier == "quick":
        return [(2, 3, 3, 1), (3, 3, 3, 1), (4, 3, 3, 1), (3, 4, 4, 1)]
    return [(2, 3, 3, 1), (3, 3, 3, 1), (4, 3, 3, 1), (3, 4, 4, 1), (2, 4, 4, 2), (4, 4, 3, 2), (5, 4, 3, 1), (4, 5, 5, 12345),
            (5, 4, 4, 1), (3, 5, 4, 2), (1, 3, 3, 1), (6, 3, 3, 7)]


STD_ASSUMPTIONS = [
    "malloc/calloc/realloc never fail (--no-malloc-may-fail; allocation failure is outside the properties)",
    "bcopy/bzero/bcmp are memmove/memset/memcmp (harness/env.h; CBMC has no model for them)",
    "sparse-matrix entry block size 8 instead of 1024 (source hook OPENFEC_VERIF_SPARSE_BLOCK): allocation granularity only",
    "signed-overflow and undefined-shift checks are off; pointer-arithmetic-outside-object reports are informational (ub_info)",
    "CBMC memory model: byte-granular objects, no alignment faults",
]
RS_STUB = ("codec-level RS queries replace the four GF multiply-accumulate kernels by their byte-wise table definition "
           "dst[i] ^= T[c][src[i]] (harness/api_util.h); C13 proves the real kernels equal to it for sizes 0..80, "
           "native replays run the real kernels (DESIGN 3.4)")
RS28_TABLES = ("codec 1 tables are preloaded from a native dump of the current of_rs_init() (source hook "
               "OPENFEC_VERIF_GF28_TABLES); C14 proves the dump equal to GF(2)[x]/(x^8+x^4+x^3+x^2+1)")
