"""C13 -- symbol kernels are exact for every length, operand count and alignment."""
import core
from common import gf28_tables_header, STD_ASSUMPTIONS

NAMES = {1: "of_add_to_symbol", 2: "of_add_from_multiple_symbols", 3: "of_add_to_multiple_symbols",
         4: "of_addmul1 (codec 1, static)", 5: "of_galois_field_2_8_addmul1",
         6: "of_galois_field_2_4_addmul1", 7: "of_galois_field_2_4_addmul1_compact"}
ONLY = ("ONLY", "of_symbol.c", "algebra_2_4.c", "algebra_2_8.c")


def kq(kernel, size, count=1, offs=0, const=None):
    p = dict(KERNEL=kernel, KSIZE=size, KCOUNT=count, KOFFS=offs)
    if const is not None:
        p['KCONST'] = const
    defs = ()
    if kernel == 4:
        defs = ('-DOPENFEC_VERIF_GF28_TABLES="%s"' % gf28_tables_header(),)
    nbuf = {1: 2, 2: count + 1, 3: count + 1}.get(kernel, 2)
    fb = nbuf * (size + offs) * 8 + (8 if kernel >= 4 else 0)
    return core.Query("C13", "kernels.c", p, lib_defs=defs, lib_exclude=ONLY,
                      unwind=max(size, count, 16) + 18, free_bits=fb, timeout=300, mem_gb=6, leak=True,
                      flags=("--object-bits", "9"))


def build(tier):
    qs = []
    if tier == "quick":
        sizes1 = list(range(0, 41))
        msizes = [0, 1, 3, 4, 5, 7, 8, 9, 13, 17]
        counts = list(range(0, 10)) + [12, 16, 20]
        g4sizes = list(range(0, 41)) + [47, 48, 49, 63, 64, 65, 80]
        g8sizes = [0, 1, 2, 8, 16, 17]
        offs = [0]
    else:
        sizes1 = list(range(0, 41))
        msizes = list(range(0, 41))
        counts = list(range(0, 21))
        g4sizes = list(range(0, 81))
        g8sizes = list(range(0, 20)) + [24, 31, 32, 33, 40, 47, 48, 49]
        offs = [0, 1, 3, 7]
    for o in offs:
        for s in sizes1:
            qs.append(kq(1, s, 1, o))
        for k in (2, 3):
            for s in msizes:
                for c in counts:
                    qs.append(kq(k, s, c, o))
        for k in (6, 7):
            for s in g4sizes:
                qs.append(kq(k, s, 1, o))
    # GF(2^8) kernels: the field constant must stay symbolic (cbmc 6.11 mis-simplifies a constant
    # row pointer into a 2-D table, DESIGN 3.4b), and a symbolic row of a 64K table costs ~10 s per
    # byte of symbol, so the size grid is small and only offset 0 / 3 is used.
    for o in ([0] if tier == "quick" else [0, 3]):
        for k in (4, 5):
            for s in g8sizes:
                q = kq(k, s, 1, o)
                q.timeout = 600 if tier == "quick" else 2400
                q.mem_gb = 10
                qs.append(q)
    qs.sort(key=lambda q: -(q.params["KSIZE"] * (50 if q.params["KERNEL"] in (4, 5) else 1)))
    meta = dict(
        units=["src/lib_common/linear_binary_codes_utils/of_symbol.c", "src/lib_stable/reed-solomon_gf_2_m/galois_field_codes_utils/algebra_2_4.c",
               "src/lib_stable/reed-solomon_gf_2_m/galois_field_codes_utils/algebra_2_8.c", "src/lib_stable/reed-solomon_gf_2_8/of_reed-solomon_gf_2_8.c (of_addmul1)"],
        functions_encoded=list(NAMES.values()),
        bounds="sizes %d..%d (XOR kernels; multi-operand kernels on sizes %s), operand counts %s, GF kernels sizes %s, object offsets %s; one query per (kernel,size,count,offset); all buffer bytes and the field constant symbolic" % (
            min(sizes1), max(sizes1), msizes if len(msizes) < 12 else "0..40", counts if len(counts) < 14 else "0..20",
            ("GF(2^4): 0..40,47..49,63..65,80; GF(2^8): %s" % g8sizes) if tier == "quick" else ("GF(2^4): 0..80; GF(2^8): %s" % g8sizes), offs),
        outside_bounds="GF(2^8) kernels beyond their small size grid (each byte of symbol is a two-index read of a 64K table; size 33 already needs ~300 s); sizes above the grid (the loops are periodic with period 8/16 bytes; no induction); operand counts > 20; big-endian and 32-bit #if branches (not compiled in this build); hardware alignment faults (CBMC memory is byte-granular)",
        stubs=["GF kernels: dst lies 15 bytes inside its heap object (canary-checked) because `lim=&dst[sz-15]` is formed before the object when sz<15 and CBMC mis-evaluates that comparison (DESIGN 3.4)",
               "codec-1 table for of_addmul1 preloaded from the native dump (C14 proves the dump)"],
        assumptions=STD_ASSUMPTIONS + ["GF(2^4) one-element-per-byte kernel: operands are field elements (< 16), as at its only call sites (matrix inversion)"],
        exhaustive=False,
    )
    return qs, meta
