"""C13 -- symbol kernels are exact for every length, operand count and alignment."""
import core
from common import gf28_tables_header, gf28_rowptr_header, STD_ASSUMPTIONS

NAMES = {1: "of_add_to_symbol", 2: "of_add_from_multiple_symbols", 3: "of_add_to_multiple_symbols",
         4: "of_addmul1 (codec 1, static)", 5: "of_galois_field_2_8_addmul1",
         6: "of_galois_field_2_4_addmul1", 7: "of_galois_field_2_4_addmul1_compact"}
ONLY = ("ONLY", "of_symbol.c", "algebra_2_4.c", "algebra_2_8.c")


def kq(kernel, size, count=1, offs=0, const=None):
    p = dict(KERNEL=kernel, KSIZE=size, KCOUNT=count, KOFFS=offs)
    if const is not None:
        p['KCONST'] = const
    defs = ()
    if kernel == 4:
        defs = ('-DOPENFEC_VERIF_GF28_TABLES="%s"' % gf28_tables_header(),)
    nbuf = {1: 2, 2: count + 1, 3: count + 1}.get(kernel, 2)
    fb = nbuf * (size + offs) * 8 + (8 if kernel >= 4 else 0)
    return core.Query("C13", "kernels.c", p, lib_defs=defs, lib_exclude=ONLY,
                      unwind=max(size, count, 16) + 18, free_bits=fb, timeout=300, mem_gb=6, leak=True,
                      flags=("--object-bits", "9"))


def kq_rowtab(kernel, size, offs=0):
    """GF(2^8) kernels through the row-pointer abstraction of the multiplication table
    (harness/kernels.c ROWTAB): a filter query whose failure is decided by the exact query."""
    exact = kq(kernel, size, 1, offs)
    exact.timeout = 2400
    exact.mem_gb = 10
    p = dict(KERNEL=kernel, KSIZE=size, KCOUNT=1, KOFFS=offs, ROWTAB=1)
    if kernel == 4:
        defs = ('-DOPENFEC_VERIF_GF28_TABLES="%s"' % gf28_rowptr_header(),)
        only = ONLY
    else:
        defs = ()
        only = ("ONLY", "of_symbol.c", "algebra_2_4.c")          # algebra_2_8.c is compiled inside the harness
    q = core.Query("C13", "kernels.c", p, lib_defs=defs, lib_exclude=only, unwind=max(size, 16) + 18 + 256,
                   free_bits=2 * (size + offs) * 8 + 8 + 256 * 8, timeout=900, mem_gb=8, leak=True, flags=("--object-bits", "9"))
    q.fallback = exact
    q.cost = size
    q.group = "gf256-kernel-%d" % kernel
    return q


def build(tier):
    qs = []
    if tier == "quick":
        sizes1 = list(range(0, 41))
        msizes = [0, 1, 3, 4, 5, 7, 8, 9, 13, 17]
        counts = list(range(0, 10)) + [12, 16, 20]
        g4sizes = list(range(0, 41)) + [47, 48, 49, 63, 64, 65, 80]
        g8sizes = [0, 1, 2, 8]
        g8abs = list(range(0, 41)) + [47, 48, 49, 56, 63, 64, 65]
        offs = [0]
    else:
        sizes1 = list(range(0, 41))
        msizes = list(range(0, 41))
        counts = list(range(0, 21))
        g4sizes = list(range(0, 81))
        g8sizes = list(range(0, 20)) + [24, 31, 32, 33, 40, 47, 48, 49]
        g8abs = list(range(0, 97))
        offs = [0, 1, 3, 7]
    for o in offs:
        for s in sizes1:
            qs.append(kq(1, s, 1, o))
        for k in (2, 3):
            for s in msizes:
                for c in counts:
                    qs.append(kq(k, s, c, o))
        for k in (6, 7):
            for s in g4sizes:
                qs.append(kq(k, s, 1, o))
    # GF(2^8) kernels: the field constant must stay symbolic (cbmc 6.11 mis-simplifies a constant
    # row pointer into a 2-D table, DESIGN 3.4b), and a symbolic row of a 64K table costs ~10 s per
    # byte of symbol, so the size grid is small and only offset 0 / 3 is used.
    for o in ([0] if tier == "quick" else [0, 3]):
        for k in (4, 5):
            for s in g8sizes:
                q = kq(k, s, 1, o)
                q.timeout = 600 if tier == "quick" else 2400
                q.mem_gb = 10
                qs.append(q)
    # the same two kernels through the row-pointer abstraction of the table: wide size range
    for o in ([0] if tier == "quick" else [0, 3]):
        for k in (4, 5):
            for s in g8abs:
                qs.append(kq_rowtab(k, s, o))
    qs.sort(key=lambda q: -(q.params["KSIZE"] * ((10 if "ROWTAB" in q.params else 50) if q.params["KERNEL"] in (4, 5) else 1)))
    meta = dict(
        units=["src/lib_common/linear_binary_codes_utils/of_symbol.c", "src/lib_stable/reed-solomon_gf_2_m/galois_field_codes_utils/algebra_2_4.c",
               "src/lib_stable/reed-solomon_gf_2_m/galois_field_codes_utils/algebra_2_8.c", "src/lib_stable/reed-solomon_gf_2_8/of_reed-solomon_gf_2_8.c (of_addmul1)"],
        functions_encoded=list(NAMES.values()),
        bounds="sizes %d..%d (XOR kernels; multi-operand kernels on sizes %s), operand counts %s, GF kernels sizes %s, object offsets %s; one query per (kernel,size,count,offset); all buffer bytes and the field constant symbolic" % (
            min(sizes1), max(sizes1), msizes if len(msizes) < 12 else "0..40", counts if len(counts) < 14 else "0..20",
            ("GF(2^4): 0..40,47..49,63..65,80; GF(2^8) exact (real table): %s; GF(2^8) through the row-pointer abstraction of the table: 0..40,47..49,56,63..65" % g8sizes) if tier == "quick"
            else ("GF(2^4): 0..80; GF(2^8) exact: %s; GF(2^8) through the row-pointer abstraction: 0..96" % g8sizes), offs),
        outside_bounds="GF(2^8) kernels against the real 64K table beyond their small exact grid (proving a pointer-based and an index-based lookup of a 64K table equal costs ~10 s per byte) -- the wide size range is decided through the row-pointer abstraction plus C14's table identity; sizes above the grid (the loops are periodic with period 8/16 bytes; no induction); operand counts > 20; big-endian and 32-bit #if branches (not compiled in this build); hardware alignment faults (CBMC memory is byte-granular)",
        stubs=["GF kernels: dst lies 15 bytes inside its heap object (canary-checked) because `lim=&dst[sz-15]` is formed before the object when sz<15 and CBMC mis-evaluates that comparison (DESIGN 3.4)",
               "codec-1 table for of_addmul1 preloaded from the native dump (C14 proves the dump)",
               "ROWTAB filter queries (GF(2^8) kernels, wide size range): the kernel's translation unit is compiled with the identifier of the 256x256 multiplication table bound to an array of 256 row pointers, all NULL except row c (c symbolic), which points to a 256-byte row of FREE solver variables; specification dst[i] ^= row[src[i]]. A pass means: for every row content the kernel reads the table only in row c at columns src[i] and combines exactly as specified, hence also for the real row (whose contents C14 proves). A failure of a filter query is never reported: the exact query (real table) of the same size decides"],
        assumptions=STD_ASSUMPTIONS + ["GF(2^4) one-element-per-byte kernel: operands are field elements (< 16), as at its only call sites (matrix inversion)"],
        exhaustive=False,
    )
    return qs, meta
