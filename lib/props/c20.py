"""C20 -- eperftool block partitioning follows RFC 5052."""
import core


def bq(bits, lo, hi, timeout):
    return core.Query("C20", "blocking.c", dict(BITS=bits, B_LO=lo, B_HI=hi), lib_exclude=("ONLY", "of_mem.c"),
                      unwind=4, free_bits=3 * bits, timeout=timeout, mem_gb=12, leak=False, flags=("--object-bits", "8"))


def build(tier):
    qs = []
    if tier == "quick":
        bits = 8
        for i in range(4):
            qs.append(bq(8, max(1, i * 64), i * 64 + 63, 900))
    else:
        bits = 10
        for i in range(16):
            qs.append(bq(10, max(1, i * 64), i * 64 + 63, 3000))
    meta = dict(
        units=["applis/eperftool/blocking_struct.c"],
        functions_encoded=["of_compute_blocking_struct", "double_to_closest_int"],
        bounds="L, E, B symbolic, 1 <= each < 2^%d (B split into ranges of 64 across queries)" % bits,
        outside_bounds="operands >= 2^%d (three double divisions and a multiplication of free operands; 12-bit operands took 23 min in the feasibility probe); in particular N >= 2^31 is not reached" % bits,
        stubs=["printf is a no-op", "ceil/floor/fabs: CBMC's math models"],
        assumptions=["CBMC's IEEE-754 double semantics", "reference: exact integer arithmetic in the harness (blocking.c)"],
        exhaustive=False)
    return qs, meta
