"""Grids of decode cycles shared by C01 C02 C03 C04 C07 C08 C10 C11."""
import itertools
import random

from common import *


def orders_for(pattern, variant):
    """A concrete arrival order for a received set: 0 index order, 1 reverse, 2 rotation,
    3 index order with every symbol immediately duplicated, 4 reverse with a late duplicate of the first."""
    p = list(pattern)
    if variant == 0:
        return p
    if variant == 1:
        return p[::-1]
    if variant == 2:
        h = len(p) // 2
        return p[h:] + p[:h]
    if variant == 3:
        return [x for e in p for x in (e, e)]
    q = p[::-1]
    return q + q[:1]


def ldpc_cycle(prop, cfg, pattern, ln, api, finish, variant, en, cb=0, extra=None, rand_mode=0, expect=True, data="full"):
    k, r, n1, seed = cfg
    sub = orders_for(pattern, variant if api == 0 else 0)
    ex = dict(extra or {})
    if expect:
        e = ldpc_expect(k, r, n1, seed, pattern)
        ex["EXP_PRE_MASK"] = "0x%xu" % e["pre_mask"]
        ex["EXP_FIN_OK"] = int(e["ml_ok"])
    return dec_query(prop, LDPC, k, r, ln, sub, n1=n1, seed=seed, api=api, finish=finish, cb=cb, en=en,
                     data=data, extra=ex, rand_mode=rand_mode)


def rs_cycle(prop, codec, k, r, ln, m, pattern, api, finish, variant, en, cb=0, data="full", extra=None, timeout=600):
    sub = orders_for(pattern, variant if api == 0 else 0)
    return dec_query(prop, codec, k, r, ln, sub, m=m, api=api, finish=finish, cb=cb, en=en, data=data, extra=extra, timeout=timeout)


def all_patterns(n):
    return [[i for i in range(n) if mask >> i & 1] for mask in range(1 << n)]


def pick(seq, seed, k):
    rnd = random.Random(seed)
    seq = list(seq)
    if len(seq) <= k:
        return seq
    return rnd.sample(seq, k)


def ldpc_classes(cfg):
    """Received sets of an LDPC configuration classified with the reference model: 'it' (peeling recovers all),
    'ml-ok' (of_finish_decoding must succeed, Gaussian elimination needed), 'ml-fail'."""
    k, r, n1, sd = cfg
    n = k + r
    out = {"it": [], "ml-ok": [], "ml-fail": []}
    for pat in all_patterns(n):
        e = ldpc_expect(k, r, n1, sd, pat)
        if e["pre_mask"] == (1 << k) - 1:
            out["it"].append(pat)
        elif e["ml_ok"]:
            out["ml-ok"].append(pat)
        else:
            out["ml-fail"].append(pat)
    return out


def ldpc_it_chain_patterns(cfg, min_decoded=2):
    """Received sets for which streaming (peeling) decoding rebuilds at least `min_decoded` source symbols:
    one rebuilt symbol feeds the next equation (recursion of the iterative decoder)."""
    k, r, n1, sd = cfg
    out = []
    for pat in all_patterns(k + r):
        e = ldpc_expect(k, r, n1, sd, pat)
        got = [c for c in e["closure"] if c < k and c not in pat]
        if len(got) >= min_decoded:
            out.append(pat)
    return out
