"""C09 -- parameters and arguments are validated: accepted => usable, unusable => rejected."""
import core
from cycles import *


def pq(mode, codec, extra=None, remove=(), unwind=16, fb=128, timeout=900):
    lib_defs, rm, excl, flags = lib_cfg(codec)
    p = dict(PMODE=mode, CODEC=codec)
    if codec in (RS28, RS2M):
        p["STUB_KERNELS"] = 1
    p.update(extra or {})
    return core.Query("C09", "params.c", p, lib_defs=lib_defs, remove=tuple(rm) + tuple(remove), lib_exclude=excl, unwind=unwind,
                      flags=("--object-bits", "12") + tuple(flags), timeout=timeout, mem_gb=10, free_bits=fb)


def build(tier):
    qs = []
    # (a) reject logic over the full 32-bit parameter space
    qs.append(pq(1, RS2M, fb=32 * 3 + 16))
    qs.append(pq(1, RS28, fb=32 * 3))
    # the one clause the pinned tree violates (known finding), asserted alone in its own queries
    qs.append(pq(1, RS2M, extra=dict(ONLY_N_ABOVE_MAX_N=1), fb=32 * 3 + 16))
    qs.append(pq(1, RS28, extra=dict(ONLY_N_ABOVE_MAX_N=1), fb=32 * 3))
    for role in (1, 2, 3):
        qs.append(pq(2, LDPC, extra=dict(ROLE=role), remove=("of_create_pchck_matrix_rfc5170_compliant",), fb=32 * 4 + 8))
    # (c) corrupt arguments, symbolic ESI
    for codec, k, r, m in ((RS2M, 2, 2, 4), (RS2M, 3, 2, 8), (RS28, 2, 2, 8), (LDPC, 3, 3, 0)):
        ex = dict(PK=k, PR=r, PLEN=(1 if codec != LDPC else 5))
        if codec == RS2M:
            ex["PM"] = m
        if codec in (RS28, LDPC):
            n = k + r
            ex["ESI_LIST_INIT"] = "{%du,%du,%du,0x7fffffffu,0x80000000u,0xffffffffu,0u,%du}" % (n, n + 1, n + 255, k - 1)
        qs.append(pq(3, codec, extra=ex, unwind=40, fb=(32 if "ESI_LIST_INIT" not in ex else 0) + (k + r) * 8))
    # N1 = n-k+1 and N1 = 2 are rejected (concrete; the symbolic query stubs the constructor that rejects N1 > n-k)
    import encq
    for (k, r, n1) in ((3, 3, 4), (2, 5, 6), (3, 4, 2)):
        q = encq.enc_query("C09", LDPC, k, r, 1, n1=n1, seed=1, role=3, en=(), extra=dict(EXP_REJECT=1), with_matrix=False)
        q.params.pop("HROWS_INIT", None)
        qs.append(q)
    # (b) accepted => usable: corners inside the limits through the full encode/decode cycle
    EN = ("C01", "C02")
    corners_rs = [(RS2M, 4, 1, 1), (RS2M, 4, 1, 14), (RS2M, 4, 5, 10), (RS2M, 8, 1, 1), (RS28, 8, 1, 1), (RS28, 8, 1, 3)] if tier == "quick" else \
                 [(RS2M, 4, 1, 1), (RS2M, 4, 1, 14), (RS2M, 4, 14, 1), (RS2M, 4, 7, 8), (RS2M, 8, 1, 1), (RS2M, 8, 1, 8), (RS2M, 8, 8, 1), (RS28, 8, 1, 1), (RS28, 8, 1, 3), (RS28, 8, 3, 1)]
    for codec, m, k, r in corners_rs:
        n = k + r
        for pat in ([list(range(r, n)), list(range(k))] if r >= k else [list(range(k - 1)) + [n - 1], list(range(k))]):
            qs.append(rs_cycle("C09", codec, k, r, 1, m, pat, len(pat) % 2, 1, 0, EN, data="one", timeout=1500 if tier == "quick" else 4000))
    corners_ld = [(1, 3, 3, 1), (2, 3, 3, 2147483646), (3, 4, 4, 1), (1, 5, 5, 2147483646)] if tier == "quick" else \
                 [(1, 3, 3, 1), (2, 3, 3, 2147483646), (3, 4, 4, 1), (1, 5, 5, 2147483646), (5, 3, 3, 2147483646), (2, 6, 6, 1), (6, 4, 4, 16807)]
    for cfg in corners_ld:
        k, r, n1, sd = cfg
        n = k + r
        for pat in (list(range(r, n)) + [k], list(range(k)), list(range(k, n))):
            qs.append(ldpc_cycle("C09", cfg, sorted(set(pat)), 1, len(pat) % 2, 1, 0, ("C01", "C03")))
    meta = dict(
        units=["src/lib_common/of_openfec_api.c", "src/lib_stable/*/of_*_api.c", "src/lib_stable/ldpc_staircase/of_ldpc_staircase_pchk.c (stubbed in the symbolic LDPC query)"],
        functions_encoded=["of_set_fec_parameters (generic + RS GF(2^8), RS GF(2^m), LDPC-Staircase)", "argument checks of of_build_repair_symbol, of_decode_with_new_symbol, of_set_available_symbols, of_finish_decoding, of_is_decoding_complete, of_get_source_symbols_tab, of_set_callback_functions, of_get_control_parameter"],
        bounds="(a) of_set_fec_parameters with k, n-k, length free over all 2^32 values each (m free over 2^16, N1 over 2^8, seed over 2^32): inside the advertised limits => OK (LDPC: the matrix constructor is reached with exactly (n-k, n, N1, seed)); k=0, length 0, k>MAX_K, n>MAX_N (computed without 32-bit wrap), m not in {4,8}, N1<3, N1>n-k, seed outside 1..2^31-2 => error status (LDPC: before the constructor is reached); n-k = 0 is asserted neither way; MAX_K/MAX_N as reported by OF_CTRL_GET_MAX_K/N. (b) corner configurations inside the limits (k=1, n-k=1, n=15 for m=4, N1=n-k, seed 1 and 2^31-2, length 1) through the full encode/decode cycle with symbolic data. (c) NULL session to every entry point, wrong role, ESI symbolic over all 2^32 values outside the valid range => error status, and the same sessions then encode/decode normally",
        outside_bounds="LDPC accepted => usable only at the corner grid (the matrix construction is concrete per query); NULL buffers/tables (not in the property's list); of_release_codec_instance(NULL)",
        stubs=["PMODE 2: of_create_pchck_matrix_rfc5170_compliant replaced by a recording stub returning NULL", RS_STUB, RS28_TABLES],
        assumptions=STD_ASSUMPTIONS, exhaustive=False)
    return qs, meta
