"""C02 -- Reed-Solomon codecs are MDS: any k of the n symbols recover the block."""
import itertools
import os
import core
from cycles import *

EN = ("C02", "C01")


def distinct_query(tabset):
    return core.Query("C02", "tables.c", dict(TABSET=tabset), lib_exclude=("ONLY", "of_mem.c"), unwind=12, free_bits=32,
                      timeout=900, mem_gb=8, leak=False, flags=("--object-bits", "8"),
                      lib_defs=(('-DOPENFEC_VERIF_GF28_TABLES="%s"' % gf28_tables_header(),) if tabset == 13 else ()))


def build(tier):
    qs = [distinct_query(11), distinct_query(12), distinct_query(13)]
    seed = int(os.environ.get("VERIF_SEED", "0") or 0)
    rs = [(4, 2, 2, "full"), (4, 3, 3, "one"), (4, 1, 3, "full"), (4, 3, 1, "one"), (8, 2, 2, "full"), (8, 3, 2, "one")] if tier == "quick" else \
         [(4, 2, 2, "full"), (4, 3, 3, "full"), (4, 1, 3, "full"), (4, 3, 1, "full"), (4, 4, 3, "one"), (4, 5, 3, "one"), (4, 2, 6, "one"), (4, 6, 2, "one"), (4, 4, 4, "one"),
          (8, 2, 2, "full"), (8, 3, 2, "one"), (8, 3, 3, "one"), (8, 4, 2, "one"), (8, 2, 4, "one"), (8, 1, 3, "full")]
    for m, k, r, data in rs:
        n = k + r
        for pi, pat in enumerate(all_patterns(n)):
            for api in ((0, 1) if tier == "thorough" or n <= 4 else (pi % 2,)):
                ln = (1, 2)[pi % 2] if data == "full" else (3, 17)[pi % 2]
                qs.append(rs_cycle("C02", RS2M, k, r, ln, m, pat, api, 1, (pi + api) % 5, EN, data=data))
    # codec 1 (legacy GF(2^8)), ~100 s per query: (2,2), received sets around the MDS boundary, orders with duplicates
    c1 = [([0, 2], 3), ([3], 3), ([1, 3], 4)] if tier == "quick" else \
         [(p, v) for p in all_patterns(4) for v in (0, 3, 4)]
    for pi, (pat, var) in enumerate(c1):
        qs.append(rs_cycle("C02", RS28, 2, 2, 1, 8, pat, 0 if var else pi % 2, 1, var, EN, data="full", timeout=1500))
    # larger codes: received sets of exactly k and exactly k-1 symbols (the MDS boundary), sampled
    big = [(4, 5, 4), (4, 7, 4), (8, 5, 3)] if tier == "quick" else [(4, 5, 4), (4, 7, 4), (4, 6, 6), (4, 10, 5), (8, 5, 3), (8, 6, 4), (8, 4, 6)]
    for m, k, r in big:
        n = k + r
        ks = pick(list(itertools.combinations(range(n), k)), seed + m * 100 + k, 6 if tier == "quick" else 24)
        km = pick(list(itertools.combinations(range(n), k - 1)), seed + m * 100 + k + 1, 2 if tier == "quick" else 6)
        for pi, pat in enumerate(ks + km):
            qs.append(rs_cycle("C02", RS2M, k, r, 2, m, list(pat), pi % 2, 1, pi % 3, EN, data="one", timeout=1200))
    # one mid-size GF(2^8) code with EVERY k-subset (the MDS statement itself: no k-subset of the
    # generator rows is singular) -- a seeded change in the Vandermonde inversion made exactly two
    # of the 70 subsets of (4,4) singular and none of any smaller code
    allk = [(8, 4, 4)] if tier == "quick" else [(8, 4, 4), (4, 4, 4), (8, 5, 4)]
    for m, k, r in allk:
        n = k + r
        for pi, pat in enumerate(itertools.combinations(range(n), k)):
            qs.append(rs_cycle("C02", RS2M, k, r, 2, m, list(pat), pi % 2, 1, 0, EN, data="one", timeout=1200))
    meta = dict(
        units=["src/lib_stable/reed-solomon_gf_2_m/of_reed-solomon_gf_2_m_api.c", "galois_field_codes_utils/of_galois_field_code.c", "algebra_2_4.c", "algebra_2_8.c", "tables of algebra_2_{4,8}.h and of_reed-solomon_gf_2_8.c"],
        functions_encoded=["of_rs_2_m_decode_with_new_symbol", "of_rs_2_m_set_available_symbols", "of_rs_2_m_finish_decoding", "of_rs_2m_build_encoding_matrix", "of_rs_2m_build_decoding_matrix", "of_rs_2m_decode", "of_galois_field_2_{4,8}_invert_mat/invert_vdm/matmul"],
        bounds="RS GF(2^m) (m,k,r,data) in %s: every received set of the 2^n, both directions asserted (>= k distinct symbols => complete with the right data, also through extra symbols and duplicates; < k => never complete and of_finish_decoding == OF_STATUS_FAILURE); larger codes %s on sampled k-subsets and (k-1)-subsets; %s on every k-subset; lemma: the exponential tables of both codecs take pairwise distinct non-zero values on 0..2^m-2 (all index pairs symbolic), i.e. the evaluation points 0,1,a,a^2.. are distinct" % (rs, big, allk),
        outside_bounds="codec 1 (legacy GF(2^8)) beyond (2,2); all received sets of codes with n > 6 (m=4) / n > 5 (m=8); data=one: only one source symbol is free per query; that distinct points imply MDS is mathematics, not checked",
        stubs=[RS_STUB, RS28_TABLES], assumptions=STD_ASSUMPTIONS, exhaustive=False)
    return qs, meta
