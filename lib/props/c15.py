"""C15 -- the 'last repair symbol is null' claim of LDPC-Staircase is truthful."""
from encq import *

EN = ("C15",)


def build(tier):
    qs = []
    if tier == "quick":
        grid = [(k, r, n1) for n1 in (3, 4, 5, 6) for k in (1, 2, 3, 5, 8) for r in (n1, n1 + 1, 8) if r >= n1]
        seeds = [1, 12345]
    else:
        grid = [(k, r, n1) for n1 in (3, 4, 5, 6) for k in range(1, 9) for r in range(n1, 9)]
        seeds = [1, 2, 12345, 2147483646]
    i = 0
    for k, r, n1 in grid:
        for s in (seeds if tier == "thorough" else [seeds[i % 2]]):
            i += 1
            # encoder (answer + all-zero last symbol for all data) and decoder (same answer) on equal parameters
            qs.append(enc_query("C15", LDPC, k, r, (1, 9)[i % 2], n1=n1, seed=s, role=1, en=EN))
            qs.append(enc_query("C15", LDPC, k, r, 1, n1=n1, seed=s, role=2, en=EN))
    meta = dict(
        units=["src/lib_stable/ldpc_staircase/of_ldpc_staircase_api.c", "src/lib_stable/ldpc_staircase/of_ldpc_staircase_pchk.c"],
        functions_encoded=["of_ldpc_staircase_get_control_parameter(OF_CRTL_LDPC_STAIRCASE_IS_LAST_SYMBOL_NULL)", "of_ldpc_staircase_build_repair_symbol", "of_create_pchck_matrix_rfc5170_compliant"],
        bounds="(k,r,N1) over %d configurations (N1 3..6, k 1..8, r N1..8), seeds %s: encoder and decoder sessions on equal parameters give the same answer, equal to the algebraic criterion on the reference matrix (N1 even and no extra entries => every source column has even weight); when true the last repair symbol built by the encoder is all zero for ALL source data (symbolic)" % (len(grid), seeds),
        outside_bounds="configurations beyond the grid; seeds are enumerated (see C05)",
        stubs=[], assumptions=STD_ASSUMPTIONS, exhaustive=False)
    return qs, meta
