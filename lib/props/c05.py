"""C05 -- the LDPC-Staircase code is the RFC 5170 code and depends only on (k, n, N1, seed)."""
from encq import *

EN = ("C05",)


def build(tier):
    qs = []
    if tier == "quick":
        grid = [(k, r) for k in (1, 2, 3, 4, 6) for r in (3, 4, 5)]
        seeds = [1, 2, 16807, 2147483646]
    else:
        grid = [(k, r) for k in (1, 2, 3, 4, 5, 6, 8, 10, 12) for r in (3, 4, 5, 6, 8)]
        seeds = [1, 2, 3, 16807, 12345, 99991, 1043618065, 2147483646]
    i = 0
    for k, r in grid:
        if k + r > 20:
            continue
        for n1 in sorted({3, min(4, r), min(5, r), r}):
            for s in (seeds if tier == "thorough" else [seeds[i % 4], seeds[(i + 1) % 4]]):
                i += 1
                role = (1, 2, 3)[i % 3]
                ln = (1, 9)[i % 2]
                qs.append(enc_query("C05", LDPC, k, r, ln, n1=n1, seed=s, role=role, en=EN, havoc=True))
                if i % 3 == 0 or tier == "thorough":
                    # the same session after a concrete earlier session with other (larger) parameters
                    pk, pr, pn1, ps = ((7, 6, 5, 99), (8, 5, 4, 7), (3, 8, 6, 1234))[i % 3]
                    q = enc_query("C05", LDPC, k, r, ln, n1=n1, seed=s, role=role, en=EN, havoc=True,
                                  extra=dict(PRIOR_K=pk, PRIOR_R=pr, PRIOR_N1=pn1, PRIOR_SEED=ps))
                    q.unwind = max(q.unwind, pn1 * pk + pk + pr + 16)
                    qs.append(q)
    meta = dict(
        units=["src/lib_stable/ldpc_staircase/of_ldpc_staircase_pchk.c", "src/lib_common/of_rand.c", "src/lib_stable/ldpc_staircase/of_ldpc_staircase_api.c", "binary_matrix/of_matrix_sparse.c"],
        functions_encoded=["of_create_pchck_matrix_rfc5170_compliant", "of_rfc5170_srand", "of_rfc5170_rand", "of_mod2sparse_insert/find", "of_ldpc_staircase_set_fec_parameters", "of_ldpc_staircase_build_repair_symbol"],
        bounds="(k,r) in %s, N1 in {3,4,5,r}, seeds %s, encoder / decoder / encoder+decoder sessions: (a) the session's parity-check matrix, traversed row by row right after of_set_fec_parameters, has exactly the entries of the reference matrix (own transcription of RFC 5170's pseudo-code, lib/ref.py, validated natively on 480 configurations against the library); (b) encoder sessions: every reference equation sums to zero over the built codeword for all source data; (c) any history: before of_set_fec_parameters the process-global PRNG state (all 2^64 values) and verbosity are symbolic, and in a third of the queries (all in thorough) a concrete earlier LDPC session with other, larger parameters is created, configured and released first; the matrix must still be the reference one" % (grid, seeds),
        outside_bounds="'all seeds' is not decidable here: the matrix is a function of ~N1*k scaled PRNG draws through double arithmetic; what lifts the seed grid is C19 (Park-Miller for all states, scaling exact for maxv<=15/255). Interoperability with third-party implementations is as good as the transcription of the RFC. k=1 deviates from the RFC text (the RFC's degree-1 fix-up loops forever when k=1; the library guards it) and is compared with the guarded reference",
        stubs=[], assumptions=STD_ASSUMPTIONS, exhaustive=False)
    return qs, meta
