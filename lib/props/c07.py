"""C07 -- memory safety and read-only treatment of application buffers."""
import itertools
from cycles import *

EN = ("C07", "C01")


def build(tier):
    qs = []
    # LDPC: every received set of a small code, both APIs, duplicates, early release
    cfgs = [(3, 3, 3, 1)] if tier == "quick" else [(2, 3, 3, 1), (3, 3, 3, 1), (3, 4, 4, 1), (5, 4, 3, 1)]
    for cfg in cfgs:
        k, r, n1, sd = cfg
        n = k + r
        for pi, pat in enumerate(all_patterns(n)):
            if n > 7 and pi % 5:
                continue
            api = pi % 2
            ex = dict(CUT=3 + (pi % (len(pat) + 2))) if pi % 3 == 0 else None
            qs.append(ldpc_cycle("C07", cfg, pat, (1, 8, 13)[pi % 3], api, 1, (3, 4, 1)[pi % 3], EN, cb=(0, 3)[pi % 2], extra=ex, expect=False))
    # a larger LDPC code with a callback handing out application buffers, on received sets where one rebuilt
    # source symbol feeds the next equation (recursion of the iterative decoder)
    import os
    sd = int(os.environ.get("VERIF_SEED", "0") or 0)
    for pi, pat in enumerate(pick(ldpc_it_chain_patterns((4, 4, 3, 1)), sd + 1, 20 if tier == "quick" else 150)):
        qs.append(ldpc_cycle("C07", (4, 4, 3, 1), pat, (1, 8, 13)[pi % 3], 0, pi % 2, (0, 1)[pi % 2], EN, cb=(1, 3)[pi % 2], expect=False))
    # RS at the limits of GF(2^4): n = 15, ESI 0 and n-1 in play
    lim = [(RS2M, 4, 1, 14), (RS2M, 4, 4, 11)] if tier == "quick" else \
          [(RS2M, 4, 1, 14), (RS2M, 4, 7, 8), (RS2M, 4, 14, 1), (RS2M, 4, 2, 13), (RS2M, 4, 13, 2), (RS2M, 8, 1, 9), (RS2M, 8, 5, 3)]      # (8,8,2): two of its four cycles end with kissat errors (no verdict) after ~6 min: left out
    for codec, m, k, r in lim:
        n = k + r
        pats = [list(range(n - k, n)), [0] + list(range(n - k + 1, n)), list(range(k - 1)) + [n - 1], list(range(n))]
        for pi, pat in enumerate(pats):
            qs.append(rs_cycle("C07", codec, k, r, (1, 17, 5, 16)[pi % 4], m, pat, pi % 2, 1, (0, 4)[pi % 2], EN, data="one", timeout=1500 if tier == "quick" else 5000,
                               extra=(dict(CUT=4 + len(pat) // 2) if pi == 3 else None)))
    small = [(RS2M, 4, 2, 2), (RS2M, 8, 2, 2), (RS28, 8, 2, 2)] if tier == "quick" else [(RS2M, 4, 2, 2), (RS2M, 4, 3, 3), (RS2M, 8, 2, 2), (RS2M, 8, 3, 2), (RS28, 8, 2, 2), (RS28, 8, 3, 2)]
    for codec, m, k, r in small:
        n = k + r
        for pi, pat in enumerate(all_patterns(n)):
            if codec == RS28 and tier == "quick" and pi % 4:
                continue
            qs.append(rs_cycle("C07", codec, k, r, (1, 15, 16, 33)[pi % 4], m, pat, pi % 2, 1, (3, 4, 0)[pi % 3], EN, cb=(0, 3)[pi % 2], data="one", timeout=900))
    meta = dict(
        units=["all 23 translation units of src/ except lib_advanced/ (per codec: the API dispatcher, the codec, the decoders, the matrix and symbol utilities)"],
        functions_encoded=["the whole public API of of_openfec_api.h on the three codecs"],
        bounds="every query of this family runs the real code under CBMC's pointer-dereference (NULL, freed, dead, out-of-object), array-bounds, pointer-primitive and free()-precondition checks with application tables of exactly n (k) entries and symbol buffers of exactly len bytes as separate heap objects; additionally asserted after the cycle: every received buffer and every encoder source buffer equals its saved copy. LDPC %s all received sets with duplicates and early release; RS GF(2^4) at n = 15 (quick: k in {1,4}; thorough: k in {1,2,7,13,14}) with ESI 0 and n-1 in the received set; small RS codes of all three codecs with lengths {1,15,16,33}. The same memory checks run inside every query of C01-C06, C08-C12, C15" % (cfgs,),
        outside_bounds="LDPC at its advertised limits (k, n = 50000); RS GF(2^8) at n = 255; hardware alignment (CBMC memory is byte-granular); histories other than the cycle variants listed",
        stubs=[RS_STUB, RS28_TABLES], assumptions=STD_ASSUMPTIONS, exhaustive=False)
    return qs, meta
