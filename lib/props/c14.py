"""C14 -- the GF(2^4) and GF(2^8) tables are the fields they claim to be."""
import core
from common import gf28_tables_header, STD_ASSUMPTIONS


def tq(tabset, timeout=900):
    defs = ()
    if tabset == 3:
        defs = ('-DOPENFEC_VERIF_GF28_TABLES="%s"' % gf28_tables_header(),)
    flags = ("--object-bits", "8")
    if tabset == 4:
        flags += ("--max-field-sensitivity-array-size", "512")
    return core.Query("C14", "tables.c", dict(TABSET=tabset), lib_defs=defs, lib_exclude=("ONLY", "of_mem.c"),
                      unwind=(12 if tabset != 4 else 260), free_bits=32, timeout=timeout, mem_gb=12, leak=False, flags=flags)


def build(tier):
    qs = [tq(1), tq(2), tq(3)]
    if tier == "thorough":
        qs.append(tq(4, timeout=5400))
    meta = dict(
        units=["src/lib_stable/reed-solomon_gf_2_m/galois_field_codes_utils/algebra_2_4.h (tables)",
               "src/lib_stable/reed-solomon_gf_2_m/galois_field_codes_utils/algebra_2_8.h (tables)",
               "src/lib_stable/reed-solomon_gf_2_8/of_reed-solomon_gf_2_8.c (of_rs_init, of_generate_gf, of_rs_init_mul_table)"],
        functions_encoded=["static tables of_gf_2_4_{mul_table,opt_mul_table,inv,log,exp}", "of_gf_2_8_{mul_table,inv,log,exp}",
                           "of_gf_mul_table/of_rs_inverse/of_rs_gf_log/of_rs_gf_exp (codec 1)"],
        bounds="all table indices symbolic: every (a,b) of every multiplication table (16x16, 16x256 packed, 256x256 twice), every inverse, log and exp entry; exhaustive over the (finite) index space, decided by one query per table set",
        outside_bounds="quick: codec-1 tables are the native dump of the current of_rs_init() (its generation inside CBMC is the thorough tier's TABSET 4 query)",
        stubs=["TABSET 3: codec-1 tables preloaded from a native run of the current source (hook OPENFEC_VERIF_GF28_TABLES)"],
        assumptions=STD_ASSUMPTIONS[:1] + ["reference arithmetic: carry-less shift-xor product reduced by 0x13 / 0x11D (harness/tables.c ref_mul)"],
        exhaustive=True,
    )
    return qs, meta
