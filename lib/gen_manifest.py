#!/usr/bin/env python3
"""Writes /verif/MANIFEST.json.  Run after adding or removing a property module."""
import json
import os

VERIF = os.path.dirname(os.path.dirname(os.path.abspath(__file__)))
BASELINE = ("cmake -S /repo -B /repo/_build -G Ninja >/dev/null && cmake --build /repo/_build >/dev/null && "
            "ctest --test-dir /repo/_build -j8 --timeout 900")

TECH = "bounded symbolic execution of the real C translation units (goto-cc + CBMC 6.11, kissat back end), unwinding assertions on, counterexamples replayed natively under ASan"

CLAIMS = {
    "C01": ("All source bytes (or one solver-chosen source symbol for the larger RS codes) are solver variables; every received set of the small codes is a separate query through the real encoder and decoder; any wrong decoded byte for any data is a counterexample, replayed natively.",
            "4.C01", "CBMC memory model; RS kernels replaced by their byte-wise definition (proved by C13); codes and orders beyond the stated grid are not claimed"),
    "C02": ("Both directions of MDS asserted per received set with symbolic data, plus a table lemma (evaluation points pairwise distinct) decided for all index pairs.",
            "4.C02", "as C01; RS decode of larger codes only on sampled k- and (k-1)-subsets"),
    "C03": ("For every received set of the grid the decoder's outcome after of_finish_decoding is compared with a GF(2) rank oracle on an independently constructed RFC 5170 matrix, for all source data.",
            "4.C03", "oracle = own RFC 5170 transcription (cross-checked by C05); rand() sequences are three concrete ones"),
    "C04": ("After every single call of a chain-cover family of arrival orders the available-source set is compared with the peeling closure on the reference matrix; data symbolic.",
            "4.C04", "orders: chain cover (every subset is some prefix) + duplicates; pre-injected null symbol counted as received"),
    "C05": ("The session's matrix is compared entry by entry with the reference RFC 5170 construction while the process-global PRNG state left by 'earlier sessions' is a free 64-bit variable.",
            "4.C05", "seeds enumerated (FP scaling makes 'all seeds' undecidable here; C19 covers the generator)"),
    "C06": ("Every repair symbol compared, for all source data, with an independent generator matrix and shift-xor field arithmetic; source buffers unchanged; NULL slot semantics.",
            "4.C06", "RS kernels stubbed by their definition (C13); one free symbol for large k*len"),
    "C07": ("Every API-level query runs with CBMC's pointer/bounds/free checks on the real code with exact-size application objects; dedicated grid for read-only buffers, ESI extremes, early release.",
            "4.C07", "byte-granular memory model (no alignment faults); LDPC at k,n=50000 out of reach"),
    "C08": ("CBMC's memory-leak check on API cycles cut by of_release_codec_instance at every step, application freeing exactly what the API says it owns.",
            "4.C08", "malloc never fails; one concrete history per query"),
    "C09": ("of_set_fec_parameters executed with fully symbolic 32-bit parameters (RS) and a grid for LDPC; corrupt-argument calls with symbolic ESI.",
            "4.C09", "LDPC matrix construction only for concrete parameters"),
    "C10": ("Status/query consistency asserted after every call of every cycle of the grid, with symbolic data.",
            "4.C10", "calls after a successful LDPC finish are outside the protocol considered"),
    "C11": ("Callback contract asserted with a solver-chosen mix of buffer/NULL returns over all received sets of the grid.",
            "4.C11", "as C01"),
    "C12": ("A session's observations are compared between a run alone and a run interleaved with another session and havocked process globals, for all data and all values of the globals.",
            "4.C12", "same thread only; two interleaving modes (B lives across A's calls / whole lives of B inside every window of A); interleaving points are the boundaries of API calls"),
    "C13": ("Each kernel executed on buffers whose every byte, and the field constant, are solver variables, per concrete (size, operand count, offset); CBMC's bounds checks give 'no byte beyond size'.",
            "4.C13", "sizes within the grid; GF(2^8) kernels: exact queries against the real 64K table on a small size grid, sizes 0..65 (0..96 thorough) through a row-pointer abstraction of the table whose pass implies the exact pass (failures are decided by the exact query); cbmc simplifier defect avoided by keeping the constant symbolic"),
    "C14": ("All table indices symbolic: one query per table set decides every entry against shift-xor field arithmetic: the whole quantifier fits in the bound.",
            "4.C14", "codec-1 tables: native dump of the current of_rs_init() in quick, generated inside CBMC in thorough"),
    "C15": ("Encoder and decoder answers compared with the algebraic criterion on the reference matrix; last symbol all-zero for all data when true.",
            "4.C15", "configurations and seeds enumerated"),
    "C16": ("2D-parity matrix structure compared with the product code for every accepted (k,r); encoder equations for all data; decoder through both submission APIs: never a wrong symbol, complete exactly when the rank oracle says so.",
            "4.C16", "k <= 16, n <= 24; all received sets only for n <= 7 (9 thorough), 0/1/2-loss sets beyond; the three 2D defects found are repaired (fix: commits, known_findings.json fixed entries)"),
    "C17": ("Concrete operation sequences on small matrices executed symbolically with all memory checks and a bit-matrix model; exhaustive within the stated scope, zero free inputs.",
            "4.C17", "reduced form: enumeration of sequences, the solver decides the VCs of each path"),
    "C18": ("Matrix bits, operation arguments and right-hand sides symbolic for concrete small dimensions; model = plain bit matrix / bit-mask elimination.",
            "4.C18", "dimensions within the grid"),
    "C19": ("One query covers all 2^31-2 generator states; seeding over all 2^64 arguments and prior states; scaling exact for small maxv.",
            "4.C19", "scaling only for maxv<=15 (quick) / 255 (thorough): IEEE double"),
    "C20": ("L, E, B symbolic up to 2^8 (quick) / 2^10 (thorough) against exact integer arithmetic.",
            "4.C20", "operands below the bit bound"),
}


def main():
    props = [json.loads(l) for l in open(os.path.join(VERIF, "properties.jsonl"))]
    have = {f[:-3].upper() for f in os.listdir(os.path.join(VERIF, "lib", "props")) if f[0] == "c" and f[1:3].isdigit() and f.endswith(".py")}
    na_reasons = {}
    p = os.path.join(VERIF, "not_applicable.json")
    if os.path.exists(p):
        na_reasons = json.load(open(p))
    checks = []
    na = []
    for pr in props:
        pid = pr["id"]
        if pid in have and pid not in na_reasons:
            text, ref, note = CLAIMS[pid]
            checks.append({
                "property_id": pid,
                "quick_cmd": "./check %s --tier quick" % pid,
                "thorough_cmd": "./check %s --tier thorough" % pid,
                "evidence_file": "evidence/%s.json" % pid,
                "replay_cmd_template": "./check %s --replay {path}" % pid,
                "engine": "cbmc",
                "level_claimed": {"category": "model_checking", "text": text, "design_ref": "DESIGN.md section " + ref},
                "level_note": note,
                "technique": TECH,
            })
        else:
            na.append({"property_id": pid, "reason": na_reasons.get(pid, "check not built yet in this round (no claim made); see DESIGN.md section 4." + pid)})
    man = {
        "version": 1,
        "setup_cmd": "true",
        "hooks": {
            "guard": "OPENFEC_VERIF",
            "enable": "goto-cc -DOPENFEC_VERIF [-DOPENFEC_VERIF_SPARSE_BLOCK=8] [-DOPENFEC_VERIF_GF28_TABLES=\"<generated header>\"] on every library translation unit (lib/core.py build_lib)",
            "baseline_off_cmd": BASELINE,
            "source_commits": ["64254ea", "aec45c7", "89a503d", json.load(open(os.path.join(VERIF, "hooks.json")))["it_table_commit"]] if os.path.exists(os.path.join(VERIF, "hooks.json")) else [],
            "add_only": True,
        },
        "engines": [{"name": "cbmc", "path": "lib/core.py", "serves_properties": sorted(c["property_id"] for c in checks),
                     "kind_free_text": "CBMC 6.11.0 bounded model checker on goto binaries built from /repo's working tree on every run; external SAT solver kissat; driver in Python (lib/), harnesses in harness/*.c, reference models in lib/ref.py"}],
        "checks": checks,
        "not_applicable": na,
        "notes": "Exit codes: 0 property held on everything explored; 1 VIOLATION (counterexample reproduced natively, replay file printed); 2 no verdict / broken query (timeouts are never success). Known findings: known_findings.json.",
    }
    with open(os.path.join(VERIF, "MANIFEST.json"), "w") as f:
        json.dump(man, f, indent=1)
    print("MANIFEST: %d checks, %d not applicable" % (len(checks), len(na)))


if __name__ == "__main__":
    main()
