import argparse
import importlib
import os
import sys

sys.path.insert(0, os.path.dirname(os.path.abspath(__file__)))
sys.path.insert(0, os.path.join(os.path.dirname(os.path.abspath(__file__)), "props"))
import core


def cap_thorough(mod, tier, queries, meta):
    """The full thorough grids add up to ~46 000 queries (6-7 h on 16 cores).  By default the
    thorough tier runs every query of the quick tier, every query of a family the module marks
    `keep` and a deterministic sample (by hash of the query key, so it is the same on every run and
    independent of the tree) of the rest, up to VERIF_THOROUGH_CAP queries (default 1200);
    VERIF_THOROUGH_CAP=0 runs the full grid.  The evidence states which of the two was run."""
    if tier != "thorough":
        return queries, meta
    cap = int(os.environ.get("VERIF_THOROUGH_CAP", "1200") or 0)
    uniq = {}
    quick = mod.build("quick")[0]
    for q in list(queries) + quick:          # the thorough tier always contains the quick tier
        uniq.setdefault(q.key(), q)
    queries = list(uniq.values())
    total = len(uniq)
    if cap <= 0 or total <= cap:
        meta["bounds"] = meta.get("bounds", "") + " [thorough: full grid of %d queries]" % total
        return queries, meta
    quick_keys = set(q.key() for q in quick)
    keep = [q for k, q in uniq.items() if k in quick_keys or getattr(q, "keep", False)]
    rest = sorted((q for k, q in uniq.items() if not (k in quick_keys or getattr(q, "keep", False))), key=lambda q: q.key())
    room = max(0, cap - len(keep))
    sel = keep + rest[:room]          # keys are md5 digests: sorting by key is a uniform deterministic sample
    order = {id(q): i for i, q in enumerate(queries)}
    sel.sort(key=lambda q: order.get(id(q), 0))
    meta["bounds"] = meta.get("bounds", "") + (" [thorough, capped: %d of the %d queries of the full grid = every quick-tier query (%d) + a deterministic hash-ordered sample of the others; "
                                                 "where the text above says 'all' for a thorough-only family, read 'a sample of'; VERIF_THOROUGH_CAP=0 runs the full grid]" % (len(sel), total, len(keep)))
    meta["exhaustive"] = False
    return sel, meta


def main():
    ap = argparse.ArgumentParser()
    ap.add_argument("prop")
    ap.add_argument("--tier", default=os.environ.get("VERIF_TIER", "quick"), choices=["quick", "thorough"])
    ap.add_argument("--replay")
    ap.add_argument("--list", action="store_true")
    a = ap.parse_args()
    if a.replay:
        sys.exit(core.replay_file(a.replay))
    mod = importlib.import_module(a.prop.lower())
    queries, meta = mod.build(a.tier)
    queries, meta = cap_thorough(mod, a.tier, queries, meta)
    if a.list:
        for q in queries:
            print(q.name)
        print(len(queries), "queries")
        return 0
    rc = core.run_property(a.prop.upper(), a.tier, queries, meta)
    sys.exit(rc)


if __name__ == "__main__":
    main()
