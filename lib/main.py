import argparse
import importlib
import os
import sys

sys.path.insert(0, os.path.dirname(os.path.abspath(__file__)))
sys.path.insert(0, os.path.join(os.path.dirname(os.path.abspath(__file__)), "props"))
import core


def main():
    ap = argparse.ArgumentParser()
    ap.add_argument("prop")
    ap.add_argument("--tier", default=os.environ.get("VERIF_TIER", "quick"), choices=["quick", "thorough"])
    ap.add_argument("--replay")
    ap.add_argument("--list", action="store_true")
    a = ap.parse_args()
    if a.replay:
        sys.exit(core.replay_file(a.replay))
    mod = importlib.import_module(a.prop.lower())
    queries, meta = mod.build(a.tier)
    if a.list:
        for q in queries:
            print(q.name)
        print(len(queries), "queries")
        return 0
    rc = core.run_property(a.prop.upper(), a.tier, queries, meta)
    sys.exit(rc)


if __name__ == "__main__":
    main()
