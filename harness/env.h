/* Environment stubs (DESIGN 3.5).  Included once by each harness (single TU).
 *
 *  - bcopy/bzero/bcmp: CBMC 6.11 has no model for them (a call is a havoc);
 *    defined here as memmove/memset/memcmp.  Natively the libc ones are used.
 *  - rand(): used once by the library (shuffle of repair-symbol injection order
 *    in ML decoding).  The harness decides what it returns: VERIF_RAND_MODE
 *    0 = always 0, 1 = 0,1,2,..., 3 = 3,10,17,..., 2 = a fresh input byte per call.
 *    Defined in both CBMC and native builds so that replays see the same values.
 *  - sqrt(): CBMC's model is a constrained nondeterministic value; the one use
 *    (floor(sqrt(n)), n <= 24+, 2D-parity constructor) gets an exact stub.
 */
#ifndef VERIF_ENV_H
#define VERIF_ENV_H
#include "common.h"

#ifndef VERIF_RAND_MODE
#define VERIF_RAND_MODE 0
#endif
static unsigned verif_rand_ctr = 0;
int rand(void)
{
#if VERIF_RAND_MODE == 0
	return 0;
#elif VERIF_RAND_MODE == 1
	return (int)(verif_rand_ctr++);
#elif VERIF_RAND_MODE == 3
	return (int)(7u * verif_rand_ctr++ + 3u);
#else
	return (int)in_u8();
#endif
}

#ifdef VERIF_CBMC
void bcopy(const void *s, void *d, size_t n) { memmove(d, s, n); }
void bzero(void *d, size_t n) { memset(d, 0, n); }
int bcmp(const void *a, const void *b, size_t n) { return memcmp(a, b, n); }

double sqrt(double x)
{
	int n = (int)x, r = 0;
	__CPROVER_assert(x >= 0 && x <= 4096 && (double)n == x, "ENV.sqrt_stub_domain");
	while ((r + 1) * (r + 1) <= n) r++;
	return (r * r == n) ? (double)r : (double)r + 0.5;
}
#endif

#endif
