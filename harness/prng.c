/* prng.c -- C19: the RFC 5170 generator is the Park-Miller minimal standard.
 * PRNG_MODE 1: one step from ANY state s in 1..2^31-2 (s symbolic): new state == 16807*s mod (2^31-1)
 * PRNG_MODE 2: seeding: for ANY 64-bit argument and ANY prior state, state := arg iff 1 <= arg <= 2^31-2
 * PRNG_MODE 3: 10,000 steps from seed 1 reach 1043618065 (concrete)
 * PRNG_MODE 4: scaling: ANY state, ANY maxv in 1..MAXV_MAX: result == floor(s'*maxv/(2^31-1)) < maxv
 */
#include "env.h"
#include "lib_common/of_openfec_api.h"
#include "lib_common/of_rand.h"
extern UINT64 of_seed;
#define PM 0x7FFFFFFFULL

int main(void)
{
#if PRNG_MODE == 1
	UINT64 s = in_u32(), ret;
	ASSUME(s >= 1 && s <= PM - 1);
	of_seed = s;
	ret = of_rfc5170_rand(1);
	CHECK(of_seed == (16807ULL * s) % PM, "C19.state_update_is_16807_s_mod_2p31m1");
	CHECK(of_seed >= 1 && of_seed <= PM - 1, "C19.state_stays_in_range");
	CHECK(ret == 0, "C19.result_below_maxv");
#elif PRNG_MODE == 2
	UINT64 arg = in_u64(), prior = in_u64();
	of_seed = prior;
	of_rfc5170_srand(arg);
	if (arg >= 1 && arg <= PM - 1) CHECK(of_seed == arg, "C19.srand_accepts_1_to_2p31m2");
	else CHECK(of_seed == prior, "C19.srand_rejects_out_of_range_and_keeps_state");
#elif PRNG_MODE == 3
	unsigned i;
	of_rfc5170_srand(1);
	for (i = 0; i < 10000; i++) (void)of_rfc5170_rand(PM);
	CHECK(of_seed == 1043618065ULL, "C19.ten_thousandth_state_after_seed_1");
#else
	UINT64 s = in_u32(), maxv = in_u32(), ret, s2;
	ASSUME(s >= 1 && s <= PM - 1);
	ASSUME(maxv >= MAXV_MIN && maxv <= MAXV_MAX);
	of_seed = s;
	ret = of_rfc5170_rand(maxv);
	s2 = of_seed;        /* == 16807*s mod (2^31-1): decided for all s by PRNG_MODE 1 */
	CHECK(s2 >= 1 && s2 <= PM - 1, "C19.state_stays_in_range");
	CHECK(ret < maxv, "C19.result_below_maxv");
	/* ret == floor(s2*maxv/(2^31-1)), written without a division: */
	CHECK(ret * PM <= s2 * maxv && s2 * maxv < (ret + 1) * PM, "C19.result_is_exact_floor_scaling");
#endif
	WITNESS_END();
	return 0;
}
