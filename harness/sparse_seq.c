/* sparse_seq.c -- C17: the sparse GF(2) matrix module against a set-of-pairs model, for one
 * concrete operation sequence per query (DESIGN 4.C17: zero free inputs; the solver decides
 * the memory-safety and model-agreement VCs of that path; the driver enumerates the sequences).
 * Two matrices A (SR x SC) and B (same size): mutations go to A, copy-type operations write B
 * from A, SWAP exchanges their roles so that later mutations hit a matrix that was cleared and
 * refilled by a copy.  Entry block size is 2 (hook) so that block allocation and free-list
 * recycling happen within a few operations.
 */
#include "env.h"
#include "lib_common/linear_binary_codes_utils/of_linear_binary_code.h"

enum { OP_INSERT, OP_DELETE, OP_CLEAR, OP_COPY, OP_COPYROWS, OP_COPYCOLS, OP_DENSE_ROUNDTRIP, OP_COPY_FILLED, OP_SWAP, OP_FIND };
typedef struct { unsigned char op, a, b; } op_t;
static const op_t OPS[NOPS > 0 ? NOPS : 1] = OPS_INIT;

static unsigned MA[SR], MB[SR];          /* models: bit j of MA[i] <=> (i,j) in A */

static void check(of_mod2sparse *m, const unsigned *model)
{
	unsigned i, j;
	of_mod2entry *e;
	CHECK(of_mod2sparse_rows(m) == SR && of_mod2sparse_cols(m) == SC, "C17.dimensions");
	for (i = 0; i < SR; i++) {
		unsigned seen = 0; int last = -1;
		for (e = of_mod2sparse_first_in_row(m, i); !of_mod2sparse_at_end(e); e = of_mod2sparse_next_in_row(e)) {
			CHECK(of_mod2sparse_row(e) == (int)i, "C17.row_traversal_stays_in_row");
			CHECK(of_mod2sparse_col(e) > last && of_mod2sparse_col(e) < SC, "C17.row_traversal_strictly_increasing");
			last = of_mod2sparse_col(e);
			seen |= 1u << last;
		}
		CHECK(seen == model[i], "C17.row_traversal_lists_exactly_the_rows_entries");
	}
	for (j = 0; j < SC; j++) {
		unsigned seen = 0, exp = 0; int last = -1;
		for (e = of_mod2sparse_first_in_col(m, j); !of_mod2sparse_at_end_col(e); e = of_mod2sparse_next_in_col(e)) {
			CHECK(of_mod2sparse_col(e) == (int)j, "C17.col_traversal_stays_in_col");
			CHECK(of_mod2sparse_row(e) > last && of_mod2sparse_row(e) < SR, "C17.col_traversal_strictly_increasing");
			last = of_mod2sparse_row(e);
			seen |= 1u << last;
		}
		for (i = 0; i < SR; i++) exp |= (model[i] >> j & 1) << i;
		CHECK(seen == exp, "C17.col_traversal_lists_exactly_the_cols_entries");
	}
	for (i = 0; i < SR; i++) for (j = 0; j < SC; j++)
		CHECK((of_mod2sparse_find(m, i, j) != NULL) == ((model[i] >> j & 1) != 0), "C17.find_agrees_with_membership");
}

int main(void)
{
	of_mod2sparse *A = of_mod2sparse_allocate(SR, SC), *B = of_mod2sparse_allocate(SR, SC), *t;
	unsigned *ma = MA, *mb = MB, *tm;
	unsigned s, i, j;
	ASSUME(A != NULL && B != NULL);
	check(A, ma);
	for (s = 0; s < NOPS; s++) {
		unsigned a = OPS[s].a, b = OPS[s].b;
		switch (OPS[s].op) {
		case OP_INSERT: {
			of_mod2entry *e = of_mod2sparse_insert(A, a, b), *e2;
			CHECK(e != NULL && of_mod2sparse_row(e) == (int)a && of_mod2sparse_col(e) == (int)b, "C17.insert_returns_the_entry");
			ma[a] |= 1u << b;
			e2 = of_mod2sparse_insert(A, a, b);
			CHECK(e2 == e, "C17.insert_existing_is_idempotent");
			break; }
		case OP_DELETE: {
			of_mod2entry *e = of_mod2sparse_find(A, a, b);
			if (e != NULL) of_mod2sparse_delete(A, e);
			ma[a] &= ~(1u << b);
			break; }
		case OP_CLEAR:
			of_mod2sparse_clear(A);
			for (i = 0; i < SR; i++) ma[i] = 0;
			break;
		case OP_COPY:
			of_mod2sparse_copy(A, B);
			for (i = 0; i < SR; i++) mb[i] = ma[i];
			check(B, mb);
			break;
		case OP_COPYROWS: {          /* row i of B = row SR-1-i of A */
			UINT32 rows[SR];
			for (i = 0; i < SR; i++) rows[i] = SR - 1 - i;
			of_mod2sparse_copyrows(A, B, rows);
			for (i = 0; i < SR; i++) mb[i] = ma[SR - 1 - i];
			check(B, mb);
			break; }
		case OP_COPYCOLS: {          /* column j of B = column SC-1-j of A */
			UINT32 cols[SC];
			for (j = 0; j < SC; j++) cols[j] = SC - 1 - j;
			of_mod2sparse_copycols(A, B, cols);
			for (i = 0; i < SR; i++) { mb[i] = 0; for (j = 0; j < SC; j++) mb[i] |= (ma[i] >> (SC - 1 - j) & 1) << j; }
			check(B, mb);
			break; }
		case OP_DENSE_ROUNDTRIP: {
			of_mod2dense *d = of_mod2dense_allocate(SR, SC);
			ASSUME(d != NULL);
			of_mod2sparse_to_dense(A, d);
			for (i = 0; i < SR; i++) for (j = 0; j < SC; j++) CHECK(of_mod2dense_get(d, i, j) == (ma[i] >> j & 1), "C17.to_dense_agrees_with_model");
			of_mod2dense_to_sparse(d, B);
			for (i = 0; i < SR; i++) mb[i] = ma[i];
			check(B, mb);
			of_mod2dense_free(d);
			break; }
		case OP_COPY_FILLED: {       /* identity index maps: B gains every entry of A */
			UINT32 ir[SR], ic[SC];
			for (i = 0; i < SR; i++) ir[i] = i;
			for (j = 0; j < SC; j++) ic[j] = j;
			of_mod2sparse_copy_filled_matrix(A, B, ir, ic);
			for (i = 0; i < SR; i++) mb[i] |= ma[i];
			check(B, mb);
			break; }
		case OP_SWAP:
			t = A; A = B; B = t; tm = ma; ma = mb; mb = tm;
			break;
		default:
			break;
		}
		check(A, ma);
	}
	check(B, mb);
	of_mod2sparse_free(A); of_free(A);
	of_mod2sparse_free(B); of_free(B);
	WITNESS_END();
	return 0;
}
