/* dec_cycle.c -- full API cycle: real encoder -> (symbolic source data) -> real decoder.
 *
 * Serves C01 C02 C03 C04 C07 C08 C10 C11 C16(decoder part): each property enables its own
 * assertions with EN_Cxx; CBMC's memory checks are always on.
 *
 * Concrete per query (params.h): CODEC PK PR PLEN PM PN1 PSEED, the submission sequence
 * (NSUB, SUB_INIT) or SYM_MASK, API, FINISH, CB, CUT, expectations computed by the
 * driver's independent reference models (lib/ref.py).
 * Symbolic: every byte of the PK source symbols; with SYM_MASK the received subset;
 * with CB==3 the callback's per-call choice buffer/NULL; with VERIF_RAND_MODE==2 rand().
 */
#ifndef PLEN
#error "params.h missing"
#endif
#include "env.h"
#include "api_util.h"

#define PN (PK + PR)
#ifndef PM
#define PM 8
#endif
#ifndef PN1
#define PN1 3
#endif
#ifndef PSEED
#define PSEED 1
#endif
#ifndef API
#define API 0
#endif
#ifndef FINISH
#define FINISH 0
#endif
#ifndef CB
#define CB 0
#endif
#ifndef CUT
#define CUT 1000000
#endif
#ifndef SYM_MASK
#define SYM_MASK 0
#endif
#ifndef SECOND_FINISH
#define SECOND_FINISH 0
#endif
#ifndef ROLE_BOTH
#define ROLE_BOTH 0
#endif
#ifndef DATA_SALT
#define DATA_SALT 0
#endif
#ifndef EN_C01
#define EN_C01 0
#endif
#ifndef EN_C02
#define EN_C02 0
#endif
#ifndef EN_C03
#define EN_C03 0
#endif
#ifndef EN_C04
#define EN_C04 0
#endif
#ifndef EN_C07
#define EN_C07 0
#endif
#ifndef EN_C10
#define EN_C10 0
#endif
#ifndef EN_C11
#define EN_C11 0
#endif
#ifndef EN_C16
#define EN_C16 0
#endif

#if !SYM_MASK
static const unsigned SUB[NSUB > 0 ? NSUB : 1] = SUB_INIT;
#ifdef EXP_PREFIX_INIT
static const unsigned EXP_PREFIX[NSUB > 0 ? NSUB : 1] = EXP_PREFIX_INIT;   /* source mask expected after each call */
#endif
#endif

static unsigned char *src[PK];        /* application source symbols (encoder input) */
static unsigned char src_copy[PK][PLEN];
static unsigned char *enc_tab[PN];    /* encoder's table */
static unsigned char *rx[PN];         /* buffers handed to the decoder (first submission) */
static unsigned char *dup_buf[PN];    /* buffers handed for duplicate submissions */
static unsigned char rx_copy[PN][PLEN];
static int submitted[PN];             /* 1 once the application submitted esi */
static int was_unknown[PN];           /* 1 if esi was not available when first submitted */
static void *tab[PN];                 /* source table as returned by the decoder (PK entries used) */

/* ---- callback bookkeeping */
static unsigned cb_calls[PK];
static void *cb_buf[PK];
static void *cb_ret[PK];
static unsigned cb_bad_args = 0;
static int cb_ctx_token;
static void *source_cb(void *ctx, UINT32 size, UINT32 esi)
{
	if (ctx != (void *)&cb_ctx_token || size != PLEN || esi >= PK) { cb_bad_args++; return NULL; }
	cb_calls[esi]++;
#if CB == 1
	if (cb_buf[esi] == NULL) cb_buf[esi] = xmalloc(PLEN);
	cb_ret[esi] = cb_buf[esi];
#elif CB == 2
	cb_ret[esi] = NULL;
#else
	if (in_u8() & 1) { if (cb_buf[esi] == NULL) cb_buf[esi] = xmalloc(PLEN); cb_ret[esi] = cb_buf[esi]; }
	else cb_ret[esi] = NULL;
#endif
	return cb_ret[esi];
}

static unsigned avail_mask(of_session_t *ses, int *tab_ok)
{
	unsigned i, m = 0;
	of_status_t st;
	for (i = 0; i < PK; i++) tab[i] = NULL;
	st = of_get_source_symbols_tab(ses, tab);
	*tab_ok = (st == OF_STATUS_OK);
	if (st != OF_STATUS_OK) return 0;
	for (i = 0; i < PK; i++) if (tab[i] != NULL) m |= 1u << i;
	return m;
}

static void check_contents(unsigned mask)
{
	unsigned i, j;
	for (i = 0; i < PK; i++) {
		if (!(mask >> i & 1)) continue;
		for (j = 0; j < PLEN; j++)
			if (EN_C01 || EN_C16) CHECK(((unsigned char *)tab[i])[j] == src_copy[i][j], "C01.decoded_source_symbol_equals_encoded");
	}
}

int main(void)
{
	of_session_t *enc = NULL, *dec = NULL;
	any_params_t prm;
	unsigned i, j, esi;
	int step = 0, tab_ok = 0;
	unsigned mask_now = 0, rx_set = 0, rx_cnt = 0;
	int complete = 0, was_complete = 0;
	of_status_t st;

	/* ---------------- encoder session: symbolic source data.
	 * default: every byte of every source symbol is free;
	 * FREE_MASK: only the symbols in the mask are free, the others hold fixed pseudo-random bytes;
	 * FREE_ONE_SYMBOLIC: one symbol, chosen by the solver, is free. */
#if defined(FREE_ONE_SYMBOLIC)
	unsigned free_sym = in_u8();
	ASSUME(free_sym < PK);
#endif
	for (i = 0; i < PK; i++) {
		src[i] = xmalloc(PLEN);
		for (j = 0; j < PLEN; j++) {
			unsigned char prn = (unsigned char)((i * 37u + j * 101u + DATA_SALT * 59u + 13u) & 0xFF);
#if defined(FREE_ONE_SYMBOLIC)
			unsigned char v = in_u8();
			src[i][j] = (i == free_sym) ? v : prn;
#elif defined(FREE_MASK)
			src[i][j] = ((FREE_MASK) >> i & 1) ? in_u8() : prn;
#else
			src[i][j] = in_u8();
#endif
			src_copy[i][j] = src[i][j];
		}
		enc_tab[i] = src[i];
	}
	st = of_create_codec_instance(&enc, (of_codec_id_t)CODEC, OF_ENCODER, 0);
	REQUIRE(st == OF_STATUS_OK && enc != NULL, "SETUP.encoder_create");
	st = of_set_fec_parameters(enc, fill_params(&prm, CODEC, PK, PR, PLEN, PM, PN1, PSEED));
	REQUIRE(st == OF_STATUS_OK, "SETUP.encoder_params_accepted");
	for (esi = PK; esi < PN; esi++) {
		enc_tab[esi] = xmalloc(PLEN);
		st = of_build_repair_symbol(enc, (void **)enc_tab, esi);
		REQUIRE(st == OF_STATUS_OK, "SETUP.build_repair_ok");
	}
	if (EN_C07) for (i = 0; i < PK; i++) for (j = 0; j < PLEN; j++)
		CHECK(src[i][j] == src_copy[i][j], "C07.encoder_source_buffers_unchanged");
	st = of_release_codec_instance(enc);
	REQUIRE(st == OF_STATUS_OK, "SETUP.encoder_release");

	/* the network: private copies of every encoding symbol */
	for (esi = 0; esi < PN; esi++) {
		rx[esi] = xmalloc(PLEN);
		for (j = 0; j < PLEN; j++) { rx[esi][j] = enc_tab[esi][j]; rx_copy[esi][j] = enc_tab[esi][j]; }
	}

	/* ---------------- decoder session */
	if (step++ == CUT) goto done_nodec;
	st = of_create_codec_instance(&dec, (of_codec_id_t)CODEC, ROLE_BOTH ? OF_ENCODER_AND_DECODER : OF_DECODER, 0);
	REQUIRE(st == OF_STATUS_OK && dec != NULL, "SETUP.decoder_create");
	if (step++ == CUT) goto done;
	st = of_set_fec_parameters(dec, fill_params(&prm, CODEC, PK, PR, PLEN, PM, PN1, PSEED));
	REQUIRE(st == OF_STATUS_OK, "SETUP.decoder_params_accepted");
	if (step++ == CUT) goto done;
#if defined(BOTH_ENCODES) && ROLE_BOTH
	/* an encoder+decoder instance used both ways: it first builds every repair symbol itself */
	{
		void *t2[PN];
		for (esi = 0; esi < PK; esi++) t2[esi] = src[esi];
		for (esi = PK; esi < PN; esi++) {
			t2[esi] = xmalloc(PLEN);
			st = of_build_repair_symbol(dec, t2, esi);
			REQUIRE(st == OF_STATUS_OK, "SETUP.build_repair_on_encoder_decoder_instance");
			for (j = 0; j < PLEN; j++) CHECK(((unsigned char *)t2[esi])[j] == enc_tab[esi][j], "C12.encoder_decoder_instance_builds_the_same_repair_symbol");
		}
		for (esi = PK; esi < PN; esi++) free(t2[esi]);
	}
#endif
#if CB != 0
	st = of_set_callback_functions(dec, source_cb, NULL, &cb_ctx_token);
	REQUIRE(st == OF_STATUS_OK, "SETUP.set_callback_ok");
	if (step++ == CUT) goto done;
#endif

#if SYM_MASK
	{
		unsigned mask = in_u16() & ((1u << PN) - 1);
		void *avail[PN];
		for (esi = 0; esi < PN; esi++) avail[esi] = NULL;
		for (esi = 0; esi < PN; esi++) {
			if (!(mask >> esi & 1)) continue;
			submitted[esi] = 1; rx_cnt++; rx_set |= 1u << esi;
#if API == 0
			was_unknown[esi] = !was_complete;
			st = of_decode_with_new_symbol(dec, rx[esi], esi);
			if (EN_C10) CHECK(st == OF_STATUS_OK, "C10.decode_with_new_symbol_returns_ok");
			complete = of_is_decoding_complete(dec) ? 1 : 0;
			if (EN_C10) CHECK(!was_complete || complete, "C10.complete_never_reverts");
			if (EN_C02) CHECK(complete == (rx_cnt >= PK), "C02.complete_iff_k_distinct_symbols");
			was_complete = complete;
#else
			was_unknown[esi] = 1;
			avail[esi] = rx[esi];
#endif
		}
#if API == 1
		st = of_set_available_symbols(dec, avail);
		if (EN_C10) CHECK(st == OF_STATUS_OK, "C10.set_available_symbols_returns_ok");
		complete = of_is_decoding_complete(dec) ? 1 : 0;
		if (EN_C02) CHECK(!complete || rx_cnt >= PK, "C02.not_complete_with_fewer_than_k");
		was_complete = complete;
#endif
	}
#else /* concrete sequence */
#if API == 0
	for (i = 0; i < NSUB; i++) {
		unsigned char *buf;
		if (step++ == CUT) goto done;
		esi = SUB[i];
		if (!submitted[esi]) {
			int ok;
			buf = rx[esi];
#if EN_C10 || EN_C11
			mask_now = (esi < PK) ? avail_mask(dec, &ok) : 0;
			was_unknown[esi] = (esi < PK) ? !(mask_now >> esi & 1) : 1;
#else
			(void)ok;
#endif
			submitted[esi] = 1; rx_cnt++; rx_set |= 1u << esi;
		} else {
			if (dup_buf[esi] == NULL) { dup_buf[esi] = xmalloc(PLEN); for (j = 0; j < PLEN; j++) dup_buf[esi][j] = rx_copy[esi][j]; }
			buf = dup_buf[esi];
		}
		st = of_decode_with_new_symbol(dec, buf, esi);
		if (EN_C10) CHECK(st == OF_STATUS_OK, "C10.decode_with_new_symbol_returns_ok");
		complete = of_is_decoding_complete(dec) ? 1 : 0;
		if (EN_C10) CHECK(!was_complete || complete, "C10.complete_never_reverts");
		was_complete = complete;
		if (EN_C02) CHECK(complete == (rx_cnt >= PK), "C02.complete_iff_k_distinct_symbols");
#ifdef EXP_PREFIX_INIT
		mask_now = avail_mask(dec, &tab_ok);
		if (EN_C04) CHECK(mask_now == EXP_PREFIX[i], "C04.available_sources_equal_peeling_closure_of_prefix");
		if (EN_C04) CHECK(complete == (EXP_PREFIX[i] == (1u << PK) - 1), "C04.complete_iff_closure_has_all_sources");
		check_contents(mask_now);
#endif
	}
#else
	{
		void *avail[PN];
		for (esi = 0; esi < PN; esi++) avail[esi] = NULL;
		for (i = 0; i < NSUB; i++) {
			esi = SUB[i];
			if (submitted[esi]) continue;
			submitted[esi] = 1; was_unknown[esi] = 1; rx_cnt++; rx_set |= 1u << esi;
			avail[esi] = rx[esi];
		}
		if (step++ == CUT) goto done;
		st = of_set_available_symbols(dec, avail);
		if (EN_C10) CHECK(st == OF_STATUS_OK, "C10.set_available_symbols_returns_ok");
		complete = of_is_decoding_complete(dec) ? 1 : 0;
		was_complete = complete;
		if (EN_C02) CHECK(!complete || rx_cnt >= PK, "C02.not_complete_with_fewer_than_k");
	}
#endif
#endif

	/* ---------------- state before of_finish_decoding */
	mask_now = avail_mask(dec, &tab_ok);
	if (EN_C01 || EN_C16) CHECK(!complete || mask_now == (1u << PK) - 1, "C01.complete_implies_all_sources_available");
	if (EN_C10) CHECK(complete == (tab_ok && mask_now == (1u << PK) - 1), "C10.complete_iff_all_k_sources_available");
	check_contents(mask_now);
#ifdef EXP_PRE_MASK
	if (EN_C04 || EN_C03) CHECK(mask_now == (EXP_PRE_MASK), "C04.available_sources_equal_peeling_closure");
#endif

#if FINISH
	if (step++ == CUT) goto done;
	st = of_finish_decoding(dec);
	complete = of_is_decoding_complete(dec) ? 1 : 0;
	if (EN_C10) CHECK((st == OF_STATUS_OK) == (complete != 0), "C10.finish_ok_iff_complete_afterwards");
	if (EN_C10) CHECK((st == OF_STATUS_FAILURE) == (complete == 0), "C10.finish_failure_iff_not_complete_afterwards");
	if (EN_C10) CHECK(!was_complete || complete, "C10.complete_never_reverts");
	was_complete = complete;
	mask_now = avail_mask(dec, &tab_ok);
	if (EN_C01 || EN_C16) CHECK(!complete || mask_now == (1u << PK) - 1, "C01.complete_implies_all_sources_available");
	if (EN_C10) CHECK(complete == (tab_ok && mask_now == (1u << PK) - 1), "C10.complete_iff_all_k_sources_available");
	check_contents(mask_now);
	if (EN_C02) CHECK(complete == (rx_cnt >= PK), "C02.finish_completes_iff_k_distinct_symbols");
	if (EN_C02) CHECK(rx_cnt >= PK || st == OF_STATUS_FAILURE, "C02.finish_returns_failure_with_fewer_than_k");
#ifdef EXP_FIN_OK
	if (EN_C03 || EN_C16) CHECK(complete == (EXP_FIN_OK), "C03.finish_recovers_iff_uniquely_determined");
#endif
#if SECOND_FINISH
	if (step++ == CUT) goto done;
	st = of_finish_decoding(dec);
	complete = of_is_decoding_complete(dec) ? 1 : 0;
	if (EN_C10) CHECK((st == OF_STATUS_OK) == (complete != 0), "C10.finish_ok_iff_complete_afterwards");
	if (EN_C10) CHECK(!was_complete || complete, "C10.complete_never_reverts");
	mask_now = avail_mask(dec, &tab_ok);
	check_contents(mask_now);
#endif
#endif

	/* ---------------- pointer identity, callback contract, read-only buffers */
	if (EN_C10 && tab_ok) for (i = 0; i < PK; i++)
		if (submitted[i] && was_unknown[i]) CHECK(tab[i] == (void *)rx[i], "C10.source_tab_returns_submitted_pointer");
#if CB != 0
	if (EN_C11) {
		CHECK(cb_bad_args == 0, "C11.callback_args_esi_lt_k_and_size_eq_len");
		for (i = 0; i < PK; i++) {
			int decoded = tab_ok && (mask_now >> i & 1) && !(submitted[i] && tab[i] == (void *)rx[i]);
			if (submitted[i] && was_unknown[i]) CHECK(cb_calls[i] == 0, "C11.no_callback_for_received_symbol");
			if (decoded) CHECK(cb_calls[i] == 1, "C11.exactly_one_callback_per_decoded_symbol");
			if (!(tab_ok && (mask_now >> i & 1))) CHECK(cb_calls[i] <= 1, "C11.at_most_one_callback_per_symbol");
			if (decoded && cb_calls[i] == 1 && cb_ret[i] != NULL) CHECK(tab[i] == cb_ret[i], "C11.source_tab_reports_callback_buffer");
			if (decoded && cb_calls[i] == 1 && cb_ret[i] == NULL) CHECK(tab[i] != NULL && tab[i] != cb_buf[i], "C11.library_allocates_when_callback_returns_null");
		}
	}
#endif
	if (EN_C07 || EN_C01) for (esi = 0; esi < PN; esi++) for (j = 0; j < PLEN; j++)
		CHECK(rx[esi][j] == rx_copy[esi][j], "C07.received_symbol_buffers_unchanged");

done:
	/* ---------------- release; the application frees what it owns */
	if (dec != NULL) {
		int ok;
		unsigned m2 = (step > 2) ? avail_mask(dec, &ok) : 0;
		st = of_release_codec_instance(dec);
		CHECK(st == OF_STATUS_OK, "C08.release_returns_ok");
		for (i = 0; i < PK; i++) {
			if (!(m2 >> i & 1)) continue;
			if (tab[i] == (void *)rx[i] || tab[i] == (void *)dup_buf[i]) continue;   /* application's own buffer */
			if (tab[i] == cb_buf[i]) continue;                                       /* freed below */
			free(tab[i]);                                                            /* decoded symbol: application owns it */
		}
	}
done_nodec:
	for (i = 0; i < PK; i++) if (cb_buf[i]) free(cb_buf[i]);
	for (esi = 0; esi < PN; esi++) { free(rx[esi]); if (dup_buf[esi]) free(dup_buf[esi]); free(enc_tab[esi]); }
	WITNESS_END();
	return 0;
}
