/* kernels.c -- C13: the seven symbol kernels against their byte-wise definition.
 *
 * Concrete per query: KERNEL, KSIZE (bytes), KCOUNT (operand count of the
 * multi-symbol kernels), KOFFS (offset of each buffer inside its heap object).
 * Symbolic: every byte of every buffer, and the field constant.
 *
 * Every buffer ends exactly at the end of its heap object, so CBMC's bounds checks
 * decide "no byte beyond size is read or written"; the KOFFS (or, for the GF
 * kernels, at least 15: DESIGN 3.4) bytes in front of it are a canary that must come
 * back unchanged.
 */
#include "env.h"
#include "lib_common/of_openfec_api.h"
#include "lib_stable/reed-solomon_gf_2_m/of_reed-solomon_gf_2_m_includes.h"

#define K_ADD_TO_SYMBOL      1
#define K_ADD_FROM_MULTIPLE  2
#define K_ADD_TO_MULTIPLE    3
#define K_RS28_ADDMUL1       4
#define K_GF28_ADDMUL1       5
#define K_GF24_ADDMUL1       6
#define K_GF24_ADDMUL1_CPT   7

#ifndef KCOUNT
#define KCOUNT 1
#endif
#ifndef KOFFS
#define KOFFS 0
#endif

#if KERNEL == K_RS28_ADDMUL1
/* the static kernel and its table: include the translation unit itself
 * (it is then left out of the library link, in CBMC and native builds alike).
 * With SYMTAB the generated table header declares of_gf_mul_table `extern` without a
 * definition: every entry of the table is then a free solver variable (see below). */
#include "lib_stable/reed-solomon_gf_2_8/of_reed-solomon_gf_2_8.c"
#endif
#if KERNEL == K_GF28_ADDMUL1 && defined(ROWTAB)
/* ROWTAB (abstraction of the multiplication table, used as a fast filter): the kernel is compiled
 * here with the identifier of the 256x256 table bound to an array of 256 row POINTERS that are all
 * NULL except the one of the (symbolic) constant c, which points to a 256-byte row of free solver
 * variables; the specification is dst[i] ^= row[src[i]].  A run that passes has therefore read the
 * table only in row c, columns 0..255 (anything else dereferences NULL or leaves the row), and is
 * exact for EVERY row content, the real one (C14) included; everything else is the real code.  It
 * avoids proving a pointer-based and an index-based lookup of a 64K table equal, byte by byte.  A
 * FAILURE of such a query is never reported: the driver then runs the exact query (real table)
 * for the same size and reports only what that one finds. */
static gf *verif_rowptr[256];
#define of_gf_2_8_mul_table verif_rowptr
#include "lib_stable/reed-solomon_gf_2_m/galois_field_codes_utils/algebra_2_8.c"
#define VERIF_ROWTAB verif_rowptr
#endif
#if KERNEL == K_RS28_ADDMUL1 && defined(ROWTAB)
/* same abstraction for codec 1: the generated table header (hook 2) declares
 * `static gf *of_gf_mul_table[256]` instead of the table */
#define VERIF_ROWTAB of_gf_mul_table
#endif
#ifdef VERIF_ROWTAB
static gf verif_row[256];
#endif

#define NB (KCOUNT > 0 ? KCOUNT : 1)

typedef struct { unsigned char *base, *p; unsigned pad; } buf_t;

static buf_t mkbuf(unsigned pad, unsigned char *copy, unsigned char *canary)
{
	buf_t b;
	unsigned i;
	b.pad = pad;
	b.base = xmalloc(pad + KSIZE);
	b.p = b.base + pad;
	for (i = 0; i < pad; i++) { b.base[i] = in_u8(); canary[i] = b.base[i]; }
	for (i = 0; i < KSIZE; i++) { b.p[i] = in_u8(); copy[i] = b.p[i]; }
	return b;
}

static unsigned char c_dst[KSIZE + 1], c_src[NB][KSIZE + 1], c_dstm[NB][KSIZE + 1];
static unsigned char can_dst[64], can_src[NB][64], can_dstm[NB][64];

int main(void)
{
	unsigned i, j;
#if KERNEL == K_ADD_TO_SYMBOL
	buf_t to = mkbuf(KOFFS, c_dst, can_dst), from = mkbuf(KOFFS, c_src[0], can_src[0]);
	of_add_to_symbol(to.p, from.p, KSIZE);
	for (i = 0; i < KSIZE; i++) {
		CHECK(to.p[i] == (unsigned char)(c_dst[i] ^ c_src[0][i]), "C13.add_to_symbol_bytewise_xor");
		CHECK(from.p[i] == c_src[0][i], "C13.source_bytes_unchanged");
	}
	for (i = 0; i < KOFFS; i++) { CHECK(to.base[i] == can_dst[i], "C13.no_write_before_buffer"); CHECK(from.base[i] == can_src[0][i], "C13.no_write_before_buffer"); }
	free(to.base); free(from.base);

#elif KERNEL == K_ADD_FROM_MULTIPLE
	buf_t to = mkbuf(KOFFS, c_dst, can_dst), from[NB];
	const void *tab[NB];
	for (j = 0; j < KCOUNT; j++) { from[j] = mkbuf(KOFFS, c_src[j], can_src[j]); tab[j] = from[j].p; }
	of_add_from_multiple_symbols(to.p, tab, KCOUNT, KSIZE);
	for (i = 0; i < KSIZE; i++) {
		unsigned char x = c_dst[i];
		for (j = 0; j < KCOUNT; j++) x ^= c_src[j][i];
		CHECK(to.p[i] == x, "C13.add_from_multiple_bytewise_xor");
		for (j = 0; j < KCOUNT; j++) CHECK(from[j].p[i] == c_src[j][i], "C13.source_bytes_unchanged");
	}
	for (i = 0; i < KOFFS; i++) {
		CHECK(to.base[i] == can_dst[i], "C13.no_write_before_buffer");
		for (j = 0; j < KCOUNT; j++) CHECK(from[j].base[i] == can_src[j][i], "C13.no_write_before_buffer");
	}
	free(to.base);
	for (j = 0; j < KCOUNT; j++) free(from[j].base);

#elif KERNEL == K_ADD_TO_MULTIPLE
	buf_t from = mkbuf(KOFFS, c_src[0], can_src[0]), to[NB];
	void *tab[NB];
	for (j = 0; j < KCOUNT; j++) { to[j] = mkbuf(KOFFS, c_dstm[j], can_dstm[j]); tab[j] = to[j].p; }
	of_add_to_multiple_symbols(tab, from.p, KCOUNT, KSIZE);
	for (i = 0; i < KSIZE; i++) {
		for (j = 0; j < KCOUNT; j++) CHECK(to[j].p[i] == (unsigned char)(c_dstm[j][i] ^ c_src[0][i]), "C13.add_to_multiple_bytewise_xor");
		CHECK(from.p[i] == c_src[0][i], "C13.source_bytes_unchanged");
	}
	for (i = 0; i < KOFFS; i++) {
		CHECK(from.base[i] == can_src[0][i], "C13.no_write_before_buffer");
		for (j = 0; j < KCOUNT; j++) CHECK(to[j].base[i] == can_dstm[j][i], "C13.no_write_before_buffer");
	}
	free(from.base);
	for (j = 0; j < KCOUNT; j++) free(to[j].base);

#else   /* the four GF multiply-accumulate kernels: dst[] ^= c * src[] */
	unsigned pad = (KOFFS > 15) ? KOFFS : 15;       /* DESIGN 3.4: lim = &dst[sz-15] must stay inside the object */
	buf_t dst = mkbuf(pad, c_dst, can_dst), src = mkbuf(KOFFS, c_src[0], can_src[0]);
#ifdef KCONST
	gf c = (gf)(KCONST);          /* concrete field constant (grid) */
#else
	gf c = in_u8();               /* all constants of the field */
#endif
#ifdef KASSUME
	ASSUME(c == (gf)(KASSUME));   /* one constant per query, still a solver variable (no constant row pointer: DESIGN 9) */
#endif
#if KERNEL == K_GF24_ADDMUL1
	/* one field element per byte: operands are field elements */
	ASSUME(c < 16);
	for (i = 0; i < KSIZE; i++) ASSUME(c_src[0][i] < 16);
#endif
#if KERNEL == K_GF24_ADDMUL1_CPT
	ASSUME(c < 16);
#endif
#ifdef VERIF_ROWTAB
	for (i = 0; i < 256; i++) verif_row[i] = in_u8();      /* every row content (the real one included) */
	VERIF_ROWTAB[c] = verif_row;
#endif
#if KERNEL == K_RS28_ADDMUL1
	if (of_rs_initialized == 0) of_rs_init();
	of_addmul1(dst.p, src.p, c, KSIZE);
#elif KERNEL == K_GF28_ADDMUL1
	of_galois_field_2_8_addmul1(dst.p, src.p, c, KSIZE);
#elif KERNEL == K_GF24_ADDMUL1
	of_galois_field_2_4_addmul1(dst.p, src.p, c, KSIZE);
#else
	of_galois_field_2_4_addmul1_compact(dst.p, src.p, c, KSIZE);
#endif
	for (i = 0; i < KSIZE; i++) {
		unsigned char x = c_src[0][i], prod;
#ifdef VERIF_ROWTAB
		prod = verif_row[x];
#elif KERNEL == K_RS28_ADDMUL1
		prod = of_gf_mul_table[c][x];
#elif KERNEL == K_GF28_ADDMUL1
		prod = of_gf_2_8_mul_table[c][x];
#elif KERNEL == K_GF24_ADDMUL1
		prod = of_gf_2_4_mul_table[c][x];
#else
		prod = (unsigned char)((of_gf_2_4_mul_table[c][x >> 4] << 4) | of_gf_2_4_mul_table[c][x & 15]);   /* both nibbles */
#endif
		CHECK(dst.p[i] == (unsigned char)(c_dst[i] ^ prod), "C13.addmul_bytewise_multiply_accumulate");
		CHECK(src.p[i] == x, "C13.source_bytes_unchanged");
	}
	for (i = 0; i < pad; i++) CHECK(dst.base[i] == can_dst[i], "C13.no_write_before_buffer");
	for (i = 0; i < KOFFS; i++) CHECK(src.base[i] == can_src[0][i], "C13.no_write_before_buffer");
	free(dst.base); free(src.base);
#endif
	WITNESS_END();
	return 0;
}
