/* dense.c -- C18: dense GF(2) matrix operations, popcount helpers and the symbol-level
 * linear solver against a plain bit-matrix model.
 * Concrete per query: DOP (operation), DR x DC (dimensions), for copies D2R x D2C, PLEN.
 * Symbolic: every matrix bit, every operation argument (in range), every right-hand side byte.
 */
#include "env.h"
#include "lib_common/linear_binary_codes_utils/of_linear_binary_code.h"

#ifndef D2R
#define D2R DR
#endif
#ifndef D2C
#define D2C DC
#endif
#ifndef PLEN
#define PLEN 1
#endif

static unsigned char M[DR][DC];       /* the model */

static of_mod2dense *mk(unsigned rows, unsigned cols, int fill)
{
	unsigned i, j;
	of_mod2dense *m = of_mod2dense_allocate(rows, cols);
	ASSUME(m != NULL);
	if (fill) for (i = 0; i < rows; i++) for (j = 0; j < cols; j++) {
		M[i][j] = in_u8() & 1;
		of_mod2dense_set(m, i, j, M[i][j]);
	}
	return m;
}
static void same(of_mod2dense *m)
{
	unsigned i, j;
	for (i = 0; i < DR; i++) for (j = 0; j < DC; j++)
		CHECK(of_mod2dense_get(m, i, j) == M[i][j], "C18.matrix_equals_bit_model");
}

int main(void)
{
	unsigned i, j;
#if DOP == 1          /* set / get / flip at a symbolic position */
	of_mod2dense *m = mk(DR, DC, 1);
	unsigned r = in_u8(), c = in_u8(), v = in_u8() & 1, f;
	ASSUME(r < DR && c < DC);
	same(m);
	CHECK(of_mod2dense_get(m, r, c) == M[r][c], "C18.get_returns_bit");
	CHECK(of_mod2dense_set(m, r, c, v) == 0, "C18.set_in_range_ok");
	M[r][c] = (unsigned char)v;
	same(m);
	f = of_mod2dense_flip(m, r, c);
	M[r][c] ^= 1;
	CHECK(f == M[r][c], "C18.flip_returns_new_bit");
	same(m);
	CHECK(of_mod2dense_set(m, DR, 0, 1) != 0 && of_mod2dense_set(m, 0, DC, 1) != 0, "C18.set_out_of_range_rejected");
	same(m);
	of_mod2dense_free(m);
#elif DOP == 2        /* weights, emptiness, xor_rows, clear */
	of_mod2dense *m = mk(DR, DC, 1);
	unsigned r = in_u8(), c = in_u8(), r2 = in_u8(), w = 0;
	ASSUME(r < DR && c < DC && r2 < DR);
	for (j = 0; j < DC; j++) w += M[r][j];
	CHECK(of_mod2dense_row_weight(m, r) == w, "C18.row_weight");
	CHECK((of_mod2dense_row_is_empty(m, r) != 0) == (w == 0), "C18.row_is_empty");
	for (w = 0, i = 0; i < DR; i++) w += M[i][c];
	CHECK(of_mod2dense_col_weight(m, c) == w, "C18.col_weight");
	of_mod2dense_xor_rows(m, (UINT16)r, (UINT16)r2);
	for (j = 0; j < DC; j++) M[r2][j] ^= (r == r2) ? M[r2][j] : M[r][j];
	same(m);
	of_mod2dense_clear(m);
	for (i = 0; i < DR; i++) for (j = 0; j < DC; j++) M[i][j] = 0;
	same(m);
	of_mod2dense_free(m);
#elif DOP == 3        /* copy into a matrix at least as large */
	of_mod2dense *m = mk(DR, DC, 1), *r = of_mod2dense_allocate(D2R, D2C);
	ASSUME(r != NULL);
	for (i = 0; i < D2R; i++) for (j = 0; j < D2C; j++) of_mod2dense_set(r, i, j, in_u8() & 1);
	of_mod2dense_copy(m, r);
	for (i = 0; i < D2R; i++) for (j = 0; j < D2C; j++)
		CHECK(of_mod2dense_get(r, i, j) == ((i < DR && j < DC) ? M[i][j] : 0), "C18.copy_copies_and_zero_fills");
	same(m);
	of_mod2dense_free(m); of_mod2dense_free(r);
#elif DOP == 4        /* copyrows: row i of r = row rows[i] of m */
	of_mod2dense *m = mk(DR, DC, 1), *r = of_mod2dense_allocate(D2R, D2C);
	UINT32 rows[D2R];
	ASSUME(r != NULL);
	for (i = 0; i < D2R; i++) { rows[i] = in_u8(); ASSUME(rows[i] < DR); }
	for (i = 0; i < D2R; i++) for (j = 0; j < D2C; j++) of_mod2dense_set(r, i, j, in_u8() & 1);
	of_mod2dense_copyrows(m, r, rows);
	for (i = 0; i < D2R; i++) for (j = 0; j < D2C; j++)
		CHECK(of_mod2dense_get(r, i, j) == ((j < DC) ? M[rows[i]][j] : 0), "C18.copyrows_selects_rows");
	same(m);
	of_mod2dense_free(m); of_mod2dense_free(r);
#elif DOP == 5        /* copycols: column j of r = column cols[j] of m (rows of m only) */
	of_mod2dense *m = mk(DR, DC, 1), *r = of_mod2dense_allocate(D2R, D2C);
	UINT32 cols[D2C];
	ASSUME(r != NULL);
	for (j = 0; j < D2C; j++) { cols[j] = in_u8(); ASSUME(cols[j] < DC); }
	for (i = 0; i < D2R; i++) for (j = 0; j < D2C; j++) of_mod2dense_set(r, i, j, in_u8() & 1);
	of_mod2dense_copycols(m, r, cols);
	for (i = 0; i < DR; i++) for (j = 0; j < D2C; j++)
		CHECK(of_mod2dense_get(r, i, j) == M[i][cols[j]], "C18.copycols_selects_columns");
	same(m);
	of_mod2dense_free(m); of_mod2dense_free(r);
#elif DOP == 6        /* popcount helpers: all 32/64-bit arguments */
	UINT32 w = in_u32(), ref = 0;
	UINT64 x = in_u64(), refx = 0;
	unsigned nbits = in_u8();
	for (i = 0; i < 32; i++) ref += (w >> i) & 1;
	for (i = 0; i < 64; i++) refx += (x >> i) & 1;
	CHECK(of_hweight32(w) == ref, "C18.hweight32");
	CHECK(of_hweight32_table(w) == ref, "C18.hweight32_table");
	CHECK(of_hweight32_naive(w) == ref, "C18.hweight32_naive");
	{ unsigned r8 = 0; for (i = 0; i < 8; i++) r8 += (w >> i) & 1; CHECK(of_hweight8_table((UINT8)w) == r8, "C18.hweight8_table"); }
	CHECK((UINT64)of_popcount_3(x) == refx, "C18.popcount_3");
	/* of_hweight_array: weight of the 32-bit words covering `nbits` bits, for 1..5 words (unused high bits are
	 * zero in a matrix row, so the count of whole words is the row weight) */
	{
		UINT32 arr[6], nwords, refa = 0;
		for (i = 0; i < 5; i++) arr[i] = in_u32();
		arr[5] = 0;
		ASSUME(nbits >= 1 && nbits <= 160);
		nwords = (nbits + 31) / 32;
		for (i = 0; i < 5; i++) if (i < nwords) refa += of_hweight32(arr[i]);
		CHECK(of_hweight_array(arr, (INT32)nbits) == refa, "C18.hweight_array");
	}
#elif DOP == 7 || DOP == 8        /* the symbol-level solver used by ML decoding (DOP 8: all-zero right-hand sides are passed as NULL, as the ML decoder does) */
	of_linear_binary_code_cb_t cb;
	of_mod2dense *m;
	void *ct[DR], *vt[DC], *tmp[DR + DC];
	unsigned char B[DR][PLEN], X[DC][PLEN];
	unsigned v, full = 1, c;
	of_status_t st;
	memset(&cb, 0, sizeof cb);
	cb.encoding_symbol_length = PLEN;
	cb.tmp_tab_symbols = tmp;
	m = mk(DR, DC, 1);
	/* a consistent system, as the decoder builds them: right-hand sides from a hidden solution X */
	for (c = 0; c < DC; c++) for (j = 0; j < PLEN; j++) X[c][j] = in_u8();
	for (i = 0; i < DR; i++) {
		ct[i] = xmalloc(PLEN);
		for (j = 0; j < PLEN; j++) {
			B[i][j] = 0;
			for (c = 0; c < DC; c++) if (M[i][c]) B[i][j] ^= X[c][j];
			((unsigned char *)ct[i])[j] = B[i][j];
		}
#if DOP == 8
		{	/* the solver chooses which of the all-zero constant terms are given as NULL */
			unsigned zero = 1;
			for (j = 0; j < PLEN; j++) zero &= (B[i][j] == 0);
			if (zero && (in_u8() & 1)) { free(ct[i]); ct[i] = NULL; }
		}
#endif
	}
	for (j = 0; j < DC; j++) vt[j] = NULL;
	st = of_linear_binary_code_solve_dense_system(&cb, m, ct, vt);
	/* full column rank <=> no non-zero v with A v = 0 */
	for (v = 1; v < (1u << DC); v++) {
		unsigned nz = 0;
		for (i = 0; i < DR; i++) {
			unsigned par = 0;
			for (j = 0; j < DC; j++) par ^= (v >> j & 1) & M[i][j];
			nz |= par;
		}
		full &= nz;
	}
	CHECK((st == OF_STATUS_OK) == (full != 0), "C18.solver_succeeds_iff_full_column_rank");
	CHECK(st == OF_STATUS_OK || st == OF_STATUS_FAILURE, "C18.solver_reports_failure_otherwise");
	if (st == OF_STATUS_OK) {
		for (j = 0; j < DC; j++) CHECK(vt[j] != NULL, "C18.solver_returns_every_unknown");
		for (c = 0; c < DC; c++) for (j = 0; j < PLEN; j++)
			if (vt[c] != NULL) CHECK(((unsigned char *)vt[c])[j] == X[c][j], "C18.solver_returns_the_unique_solution");
	}
	for (i = 0; i < DR; i++) if (ct[i]) free(ct[i]);
	for (j = 0; j < DC; j++) if (vt[j]) free(vt[j]);
	of_mod2dense_free(m);
#endif
	(void)i; (void)j;
	WITNESS_END();
	return 0;
}
