/* Helpers shared by the API-level harnesses: parameter structs per codec,
 * kernel specification stubs (DESIGN 3.4). */
#ifndef VERIF_API_UTIL_H
#define VERIF_API_UTIL_H

#include "common.h"
#include "lib_common/of_openfec_api.h"
#include "lib_stable/reed-solomon_gf_2_m/of_reed-solomon_gf_2_m_includes.h"

#define CODEC_RS28 1
#define CODEC_RS2M 2
#define CODEC_LDPC 3
#define CODEC_2D   5

typedef union {
	of_parameters_t            gen;
	of_rs_parameters_t         rs;
	of_rs_2_m_parameters_t     rs2m;
	of_ldpc_parameters_t       ldpc;
	of_2d_parity_parameters_t  p2d;
} any_params_t;

static inline of_parameters_t *fill_params(any_params_t *p, int codec, unsigned k, unsigned r,
                                           unsigned len, unsigned m, unsigned n1, unsigned seed)
{
	memset(p, 0, sizeof *p);
	p->gen.nb_source_symbols = k;
	p->gen.nb_repair_symbols = r;
	p->gen.encoding_symbol_length = len;
	if (codec == CODEC_RS2M) p->rs2m.m = (UINT16)m;
	if (codec == CODEC_LDPC) { p->ldpc.prng_seed = (INT32)seed; p->ldpc.N1 = (UINT8)n1; }
	return &p->gen;
}

/* ---- byte-wise specification of the GF multiply-accumulate kernels.
 * Used in codec-level CBMC runs in place of the real kernels, whose
 * `lim = &dst[sz-15]` idiom CBMC mis-evaluates for sz < 15 (DESIGN 3.4).
 * C13 proves the real kernels equal to exactly these definitions. */
#if defined(VERIF_CBMC) && defined(STUB_KERNELS)
void of_galois_field_2_8_addmul1(gf *dst, gf *src, gf c, int sz)
{
	int i;
	for (i = 0; i < sz; i++) dst[i] ^= of_gf_2_8_mul_table[c][src[i]];
}
void of_galois_field_2_4_addmul1(gf *dst, gf *src, gf c, int sz)
{
	int i;
	for (i = 0; i < sz; i++) dst[i] ^= of_gf_2_4_mul_table[c][src[i]];
}
void of_galois_field_2_4_addmul1_compact(gf *dst, gf *src, gf c, int sz)
{
	int i;
	for (i = 0; i < sz; i++) dst[i] ^= of_gf_2_4_opt_mul_table[c][src[i]];
}
#ifdef OPENFEC_VERIF_GF28_TABLES
/* codec 1: of_addmul1 and its table are static in of_reed-solomon_gf_2_8.c.  Static data cannot be
 * named from another translation unit, so the stub reads its own copy of the very same generated
 * header the library is built with (hook 2). */
#ifndef GF_SIZE
#define GF_SIZE 255
#endif
#include OPENFEC_VERIF_GF28_TABLES
void __CPROVER_file_local_of_reed_solomon_gf_2_8_c_of_addmul1(gf *dst, gf *src, gf c, int sz)
{
	int i;
	for (i = 0; i < sz; i++) dst[i] ^= of_gf_mul_table[c][src[i]];
}
#endif
#endif

#endif
