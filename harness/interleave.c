/* interleave.c -- C12: sessions are independent of each other.
 * Session A (codec CODEC, PK/PR/PLEN..., submission sequence SUB_INIT, then of_finish_decoding)
 * is run twice in the same query: alone, and interleaved with the life of another session B
 * (codec BCODEC, BK/BR/BLEN...) whose steps are executed between every two calls of A, while the
 * process-global PRNG state and verbosity are set to fresh symbolic values between every two
 * calls of A and rand() keeps counting across both sessions.  Every observation of A (statuses,
 * repair symbol bytes, completion after each call, decoded symbol bytes) must be identical.
 * Source data of A symbolic (same values in both runs).
 * BMODE 0: B lives ACROSS A's calls (one step of B between every two calls of A).
 * BMODE 1: between every two calls of A a whole encoder life and a whole decoder life of B take
 *          place (create, configure, build one repair symbol / decode k symbols, finish, release),
 *          so that every call of B falls into every window between two calls of A.
 */
#include "env.h"
#include "api_util.h"

#define PN (PK + PR)
#define BN (BK + BR)
#ifndef PM
#define PM 8
#endif
#ifndef BM
#define BM 8
#endif
#ifndef PN1
#define PN1 3
#endif
#ifndef BN1
#define BN1 3
#endif
#ifndef PSEED
#define PSEED 1
#endif
#ifndef BSEED
#define BSEED 2
#endif
extern UINT64 of_seed;

static const unsigned SUB[NSUB > 0 ? NSUB : 1] = SUB_INIT;
static unsigned char srcA[PK][PLEN];

typedef struct {
	int st[8 + PN + NSUB];
	unsigned nst;
	unsigned char rep[PR][PLEN];
	unsigned char complete[NSUB + 2];
	unsigned mask;
	unsigned char dec[PK][PLEN];
} obs_t;
static obs_t O[2];

/* ---------------- session B: a small state machine advanced one step at a time */
static of_session_t *benc, *bdec;
static unsigned char *bsym[BN];
static void *btab[BN];
static unsigned bstep;
static void b_advance(void)
{
	any_params_t prm;
	unsigned i;
	switch (bstep++) {
	case 0:
		for (i = 0; i < BN; i++) { bsym[i] = xmalloc(BLEN); memset(bsym[i], (int)(0x5a + i), BLEN); btab[i] = bsym[i]; }
		of_create_codec_instance(&benc, (of_codec_id_t)BCODEC, OF_ENCODER, 1);
		break;
	case 1:
		of_set_fec_parameters(benc, fill_params(&prm, BCODEC, BK, BR, BLEN, BM, BN1, BSEED));
		break;
	case 2:
		for (i = BK; i < BN; i++) of_build_repair_symbol(benc, btab, i);
		of_create_codec_instance(&bdec, (of_codec_id_t)BCODEC, OF_DECODER, 0);
		break;
	case 3:
		of_set_fec_parameters(bdec, fill_params(&prm, BCODEC, BK, BR, BLEN, BM, BN1, BSEED));
		break;
	case 4:
		for (i = 1; i < BN; i++) of_decode_with_new_symbol(bdec, bsym[i], i);
		break;
	case 5:
		of_finish_decoding(bdec);
		break;
	case 6: {
		void *t[BN];
		for (i = 0; i < BK; i++) t[i] = NULL;
		if (of_get_source_symbols_tab(bdec, t) == OF_STATUS_OK)
			for (i = 0; i < BK; i++) if (t[i] != NULL && t[i] != (void *)bsym[i]) free(t[i]);
		of_release_codec_instance(bdec); bdec = NULL;
		of_release_codec_instance(benc); benc = NULL;
		for (i = 0; i < BN; i++) { free(bsym[i]); bsym[i] = NULL; }
		break; }
	default:
		bstep = 0;      /* start another B */
		break;
	}
}
#ifndef BMODE
#define BMODE 0
#endif
#if BMODE == 1
static void b_whole_lives(void)
{
	of_session_t *e = NULL, *d = NULL;
	any_params_t prm;
	unsigned char *s[BN];
	void *t[BN], *st[BN];
	unsigned i;
	for (i = 0; i < BN; i++) { s[i] = xmalloc(BLEN); memset(s[i], (int)(0x5a + i), BLEN); t[i] = s[i]; }
	of_create_codec_instance(&e, (of_codec_id_t)BCODEC, OF_ENCODER, 1);
	of_set_fec_parameters(e, fill_params(&prm, BCODEC, BK, BR, BLEN, BM, BN1, BSEED));
	of_build_repair_symbol(e, t, BK);
	of_release_codec_instance(e);
	of_create_codec_instance(&d, (of_codec_id_t)BCODEC, OF_DECODER, 0);
	of_set_fec_parameters(d, fill_params(&prm, BCODEC, BK, BR, BLEN, BM, BN1, BSEED));
	for (i = 1; i <= BK; i++) of_decode_with_new_symbol(d, s[i], i);      /* source 0 missing, repair k present */
	of_finish_decoding(d);
	for (i = 0; i < BK; i++) st[i] = NULL;
	if (of_get_source_symbols_tab(d, st) == OF_STATUS_OK)
		for (i = 0; i < BK; i++) if (st[i] != NULL && st[i] != (void *)s[i]) free(st[i]);
	of_release_codec_instance(d);
	for (i = 0; i < BN; i++) free(s[i]);
}
#endif
static void between(int interleave)
{
	if (!interleave) return;
	of_seed = in_u64();
	of_verbosity = in_u8() & 1;
#if BMODE == 1
	b_whole_lives();
#else
	b_advance();
#endif
}

static void run_A(int interleave, obs_t *o)
{
	of_session_t *enc = NULL, *dec = NULL;
	any_params_t prm;
	unsigned char *sym[PN];
	void *tab[PN], *stab[PN];
	unsigned i, j;
	o->nst = 0;
	for (i = 0; i < PN; i++) { sym[i] = xmalloc(PLEN); tab[i] = sym[i]; }
	for (i = 0; i < PK; i++) for (j = 0; j < PLEN; j++) sym[i][j] = srcA[i][j];
	between(interleave);
	o->st[o->nst++] = of_create_codec_instance(&enc, (of_codec_id_t)CODEC, OF_ENCODER, 0);
	between(interleave);
	o->st[o->nst++] = of_set_fec_parameters(enc, fill_params(&prm, CODEC, PK, PR, PLEN, PM, PN1, PSEED));
	for (i = PK; i < PN; i++) {
		between(interleave);
		o->st[o->nst++] = of_build_repair_symbol(enc, tab, i);
		for (j = 0; j < PLEN; j++) o->rep[i - PK][j] = sym[i][j];
	}
	between(interleave);
	o->st[o->nst++] = of_release_codec_instance(enc);
	between(interleave);
	o->st[o->nst++] = of_create_codec_instance(&dec, (of_codec_id_t)CODEC, OF_DECODER, 0);
	between(interleave);
	o->st[o->nst++] = of_set_fec_parameters(dec, fill_params(&prm, CODEC, PK, PR, PLEN, PM, PN1, PSEED));
	for (i = 0; i < NSUB; i++) {
		between(interleave);
		o->st[o->nst++] = of_decode_with_new_symbol(dec, sym[SUB[i]], SUB[i]);
		o->complete[i] = of_is_decoding_complete(dec) ? 1 : 0;
	}
	between(interleave);
	o->st[o->nst++] = of_finish_decoding(dec);
	o->complete[NSUB] = of_is_decoding_complete(dec) ? 1 : 0;
	between(interleave);
	for (i = 0; i < PK; i++) stab[i] = NULL;
	o->mask = 0;
	if (of_get_source_symbols_tab(dec, stab) == OF_STATUS_OK)
		for (i = 0; i < PK; i++) if (stab[i] != NULL) {
			o->mask |= 1u << i;
			for (j = 0; j < PLEN; j++) o->dec[i][j] = ((unsigned char *)stab[i])[j];
		}
	o->st[o->nst++] = of_release_codec_instance(dec);
	for (i = 0; i < PK; i++) if ((o->mask >> i & 1) && stab[i] != (void *)sym[i]) free(stab[i]);
	for (i = 0; i < PN; i++) free(sym[i]);
}

int main(void)
{
	unsigned i, j;
#if defined(FREE_ONE_SYMBOLIC)
	unsigned free_sym = in_u8();
	ASSUME(free_sym < PK);
#endif
	for (i = 0; i < PK; i++) for (j = 0; j < PLEN; j++) {
#if defined(FREE_ONE_SYMBOLIC)
		unsigned char v = in_u8();
		srcA[i][j] = (i == free_sym) ? v : (unsigned char)(i * 37u + j * 101u + 13u);
#else
		srcA[i][j] = in_u8();
#endif
	}
	run_A(0, &O[0]);
	verif_rand_ctr = 0;
	run_A(1, &O[1]);
	while (bstep != 0 && bstep <= 6) b_advance();        /* let B finish and release */
	CHECK(O[0].nst == O[1].nst, "C12.same_number_of_calls");
	for (i = 0; i < O[0].nst; i++) CHECK(O[0].st[i] == O[1].st[i], "C12.statuses_identical_alone_and_interleaved");
	for (i = 0; i < PR; i++) for (j = 0; j < PLEN; j++) CHECK(O[0].rep[i][j] == O[1].rep[i][j], "C12.repair_symbols_identical_alone_and_interleaved");
	for (i = 0; i <= NSUB; i++) CHECK(O[0].complete[i] == O[1].complete[i], "C12.completion_identical_alone_and_interleaved");
	CHECK(O[0].mask == O[1].mask, "C12.available_sources_identical_alone_and_interleaved");
	for (i = 0; i < PK; i++) if (O[0].mask >> i & 1) for (j = 0; j < PLEN; j++)
		CHECK(O[0].dec[i][j] == O[1].dec[i][j], "C12.decoded_symbols_identical_alone_and_interleaved");
	WITNESS_END();
	return 0;
}
