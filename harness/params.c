/* params.c -- C09: parameter and argument validation.
 * PMODE 1: Reed-Solomon (CODEC 1 or 2): k, n-k, length (and m) are free 32-bit (16-bit) values;
 *          the real of_set_fec_parameters runs as is (nothing loops before its verdict).
 * PMODE 2: LDPC-Staircase: k, n-k, length, N1, seed free; the matrix constructor is replaced by a
 *          stub that records that it was reached and with which arguments (and returns NULL).
 * PMODE 3: corrupt single arguments on an otherwise valid small session (ESI symbolic), then a
 *          normal decode on the same sessions to show they are still usable.
 */
#include "env.h"
#include "api_util.h"
#include "lib_stable/ldpc_staircase/of_ldpc_includes.h"

#ifndef PM
#define PM 8
#endif

#if PMODE == 2
static int ctor_reached = 0;
static UINT32 ctor_rows, ctor_cols, ctor_deg, ctor_seed;
of_mod2sparse *of_create_pchck_matrix_rfc5170_compliant(UINT32 nb_rows, UINT32 nb_cols, UINT32 left_degree, UINT32 seed, of_ldpc_staircase_cb_t *ofcb)
{
	(void)ofcb;
	ctor_reached++;
	ctor_rows = nb_rows; ctor_cols = nb_cols; ctor_deg = left_degree; ctor_seed = seed;
	return NULL;
}
#endif

int main(void)
{
	of_session_t *ses = NULL;
	any_params_t prm;
	of_status_t st;
#if PMODE == 1
	UINT32 k = in_u32(), r = in_u32(), len = in_u32(), maxk = 0, maxn = 0;
	unsigned m = (CODEC == CODEC_RS2M) ? in_u16() : 8;
	unsigned long long n = (unsigned long long)k + r;
	unsigned lim = (m == 4) ? 15 : 255;
	int m_ok = (CODEC == CODEC_RS28) || m == 4 || m == 8;
	int inside, outside;
	st = of_create_codec_instance(&ses, (of_codec_id_t)CODEC, OF_ENCODER_AND_DECODER, 0);
	REQUIRE(st == OF_STATUS_OK && ses != NULL, "SETUP.create");
	st = of_set_fec_parameters(ses, fill_params(&prm, CODEC, k, r, len, m, 0, 0));
	inside = m_ok && k >= 1 && k <= lim && r >= 1 && n <= lim && len >= 1;
	outside = !m_ok || k == 0 || len == 0 || k > lim;
	if (inside) CHECK(st == OF_STATUS_OK, "C09.rs_configuration_inside_limits_accepted");
#ifndef ONLY_N_ABOVE_MAX_N
	if (outside) CHECK(st != OF_STATUS_OK, "C09.rs_configuration_outside_limits_rejected");
#endif
	/* n > MAX_N with everything else valid: a separate assertion (and query), because the pinned
	 * tree accepts it -- known finding C09-rs-n-above-max-n, kept so by the pinned test suite
	 * (Test.RS_2m_4.src1 runs k=1, n=24 over GF(2^4)) */
#ifdef ONLY_N_ABOVE_MAX_N
	if (!outside && n > lim) CHECK(st != OF_STATUS_OK, "C09.rs_n_above_max_n_rejected");
#endif
	if (st == OF_STATUS_OK) {
		/* the advertised limits are what the control parameters report */
		CHECK(of_get_control_parameter(ses, OF_CTRL_GET_MAX_K, &maxk, sizeof maxk) == OF_STATUS_OK && maxk == lim, "C09.max_k_reported");
		CHECK(of_get_control_parameter(ses, OF_CTRL_GET_MAX_N, &maxn, sizeof maxn) == OF_STATUS_OK && maxn == lim, "C09.max_n_reported");
	}
	of_release_codec_instance(ses);
#elif PMODE == 2
	UINT32 k = in_u32(), r = in_u32(), len = in_u32(), seed = in_u32(), maxk = 0, maxn = 0;
	unsigned n1 = in_u8();
	unsigned long long n = (unsigned long long)k + r;
	int inside, outside;
	st = of_create_codec_instance(&ses, OF_CODEC_LDPC_STAIRCASE_STABLE, ROLE, 0);
	REQUIRE(st == OF_STATUS_OK && ses != NULL, "SETUP.create");
	CHECK(of_get_control_parameter(ses, OF_CTRL_GET_MAX_K, &maxk, sizeof maxk) == OF_STATUS_OK && maxk >= 1, "C09.max_k_reported");
	CHECK(of_get_control_parameter(ses, OF_CTRL_GET_MAX_N, &maxn, sizeof maxn) == OF_STATUS_OK && maxn >= maxk, "C09.max_n_reported");
	st = of_set_fec_parameters(ses, fill_params(&prm, CODEC_LDPC, k, r, len, 0, n1, seed));
	inside = k >= 1 && k <= maxk && r >= 1 && n <= maxn && len >= 1 && n1 >= 3 && n1 <= r && seed >= 1 && seed <= 0x7FFFFFFEu;
	outside = k == 0 || len == 0 || k > maxk || n > maxn || n1 < 3 || n1 > r || seed == 0 || seed > 0x7FFFFFFEu;
	/* the stub constructor returns NULL, so "accepted" means: reached the constructor, with the right arguments */
	if (inside) CHECK(ctor_reached == 1 && ctor_rows == r && ctor_cols == (UINT32)n && ctor_deg == n1 && ctor_seed == seed, "C09.ldpc_configuration_inside_limits_reaches_construction_unchanged");
	if (outside) CHECK(st != OF_STATUS_OK, "C09.ldpc_configuration_outside_limits_rejected");
	if (outside && !(n1 > r)) CHECK(ctor_reached == 0, "C09.ldpc_configuration_outside_limits_rejected_before_matrix_construction");   /* N1 > n-k is rejected inside the constructor: concrete queries cover it */
	of_release_codec_instance(ses);
#else
	{
	of_session_t *enc = NULL, *dec = NULL;
	unsigned char *sym[PK + PR], *out = xmalloc(PLEN);
	void *tab[PK + PR], *stab[PK + PR];
	UINT32 esi = in_u32(), i;
	unsigned j;
	for (i = 0; i < PK + PR; i++) { sym[i] = xmalloc(PLEN); for (j = 0; j < PLEN; j++) sym[i][j] = in_u8(); tab[i] = sym[i]; }
	/* NULL session to every entry point */
	CHECK(of_set_fec_parameters(NULL, fill_params(&prm, CODEC, PK, PR, PLEN, PM, 3, 1)) != OF_STATUS_OK, "C09.null_session_rejected");
	CHECK(of_build_repair_symbol(NULL, tab, PK) != OF_STATUS_OK, "C09.null_session_rejected");
	CHECK(of_decode_with_new_symbol(NULL, sym[0], 0) != OF_STATUS_OK, "C09.null_session_rejected");
	CHECK(of_set_available_symbols(NULL, tab) != OF_STATUS_OK, "C09.null_session_rejected");
	CHECK(of_finish_decoding(NULL) != OF_STATUS_OK, "C09.null_session_rejected");
	CHECK(of_get_source_symbols_tab(NULL, stab) != OF_STATUS_OK, "C09.null_session_rejected");
	CHECK(!of_is_decoding_complete(NULL), "C09.null_session_rejected");
	CHECK(of_set_callback_functions(NULL, NULL, NULL, NULL) != OF_STATUS_OK, "C09.null_session_rejected");
	CHECK(of_get_control_parameter(NULL, OF_CTRL_GET_MAX_K, &i, sizeof i) != OF_STATUS_OK, "C09.null_session_rejected");
	/* valid sessions */
	st = of_create_codec_instance(&enc, (of_codec_id_t)CODEC, OF_ENCODER, 0);
	REQUIRE(st == OF_STATUS_OK, "SETUP.create");
	st = of_set_fec_parameters(enc, fill_params(&prm, CODEC, PK, PR, PLEN, PM, 3, 1));
	REQUIRE(st == OF_STATUS_OK, "SETUP.params");
	st = of_create_codec_instance(&dec, (of_codec_id_t)CODEC, OF_DECODER, 0);
	REQUIRE(st == OF_STATUS_OK, "SETUP.create");
	st = of_set_fec_parameters(dec, fill_params(&prm, CODEC, PK, PR, PLEN, PM, 3, 1));
	REQUIRE(st == OF_STATUS_OK, "SETUP.params");
	/* wrong role */
	CHECK(of_decode_with_new_symbol(enc, sym[0], 0) != OF_STATUS_OK, "C09.wrong_role_rejected");
	CHECK(of_set_available_symbols(enc, tab) != OF_STATUS_OK, "C09.wrong_role_rejected");
	CHECK(of_finish_decoding(enc) != OF_STATUS_OK, "C09.wrong_role_rejected");
	CHECK(of_get_source_symbols_tab(enc, stab) != OF_STATUS_OK, "C09.wrong_role_rejected");
	CHECK(!of_is_decoding_complete(enc), "C09.wrong_role_rejected");
	CHECK(of_build_repair_symbol(dec, tab, PK) != OF_STATUS_OK, "C09.wrong_role_rejected");
	/* ESI out of range: values >= n for decoding, values outside k..n-1 for building */
#ifdef ESI_LIST_INIT
	{	/* a concrete list (a symbolic ESI makes the decoders' pointer-rich paths explode) */
		static const UINT32 bad[] = ESI_LIST_INIT;
		unsigned b;
		(void)esi;
		for (b = 0; b < sizeof bad / sizeof bad[0]; b++) {
			if (bad[b] >= PK + PR) CHECK(of_decode_with_new_symbol(dec, out, bad[b]) != OF_STATUS_OK, "C09.decode_esi_out_of_range_rejected");
			if (bad[b] < PK || bad[b] >= PK + PR) CHECK(of_build_repair_symbol(enc, tab, bad[b]) != OF_STATUS_OK, "C09.build_esi_out_of_range_rejected");
		}
	}
#else
	/* any of the 2^32 values */
	if (esi >= PK + PR) CHECK(of_decode_with_new_symbol(dec, out, esi) != OF_STATUS_OK, "C09.decode_esi_out_of_range_rejected");
	if (esi < PK || esi >= PK + PR) CHECK(of_build_repair_symbol(enc, tab, esi) != OF_STATUS_OK, "C09.build_esi_out_of_range_rejected");
#endif
	/* the sessions are still usable: build the repairs, decode from the source symbols */
	for (i = PK; i < PK + PR; i++) CHECK(of_build_repair_symbol(enc, tab, i) == OF_STATUS_OK, "C09.session_usable_after_rejected_calls");
	CHECK(!of_is_decoding_complete(dec), "C09.session_usable_after_rejected_calls");
	for (i = 0; i < PK; i++) CHECK(of_decode_with_new_symbol(dec, sym[i], i) == OF_STATUS_OK, "C09.session_usable_after_rejected_calls");
	CHECK(of_is_decoding_complete(dec), "C09.session_usable_after_rejected_calls");
	CHECK(of_get_source_symbols_tab(dec, stab) == OF_STATUS_OK && stab[0] == (void *)sym[0], "C09.session_usable_after_rejected_calls");
	of_release_codec_instance(enc);
	of_release_codec_instance(dec);
	for (i = 0; i < PK + PR; i++) free(sym[i]);
	free(out);
	}
#endif
	WITNESS_END();
	return 0;
}
