/* Common definitions for all harnesses.
 *
 * Every harness is one C file that is (a) compiled by goto-cc and decided by
 * CBMC and (b) compiled by gcc -fsanitize=address against the real, unstubbed
 * sources and run as a native replay of a counterexample.
 *
 * All nondeterminism is drawn through in_u8()/in_u32()/...; under CBMC each
 * drawn byte is logged into IN_LOG[] so that the driver can read the
 * counterexample's input bytes back from the trace; natively the bytes come
 * from the file named by $VERIF_REPLAY_INPUT (missing bytes read as 0).
 *
 * CHECK() never uses <assert.h>: the library is built with -DNDEBUG, which
 * would silently delete assert() from the harness too.
 */
#ifndef VERIF_COMMON_H
#define VERIF_COMMON_H

#include <stdio.h>
#include <stdlib.h>
#include <string.h>
#include <stdint.h>

#ifndef IN_MAX
#define IN_MAX 4096
#endif

#ifdef VERIF_CBMC
unsigned char nondet_uchar(void);
unsigned char IN_LOG[IN_MAX];
unsigned IN_POS = 0;
static inline unsigned char in_u8(void)
{
	unsigned char v = nondet_uchar();
	if (IN_POS < IN_MAX) IN_LOG[IN_POS] = v;
	IN_POS++;
	return v;
}
#define CHECK(c, id)  __CPROVER_assert((c), id)
#define ASSUME(c)     __CPROVER_assume(c)
#else
static FILE *IN_F = NULL;
static int IN_OPENED = 0;
static inline unsigned char in_u8(void)
{
	int c;
	if (!IN_OPENED) {
		const char *p = getenv("VERIF_REPLAY_INPUT");
		IN_OPENED = 1;
		if (p) IN_F = fopen(p, "rb");
	}
	if (!IN_F) return 0;
	c = fgetc(IN_F);
	return (c == EOF) ? 0 : (unsigned char)c;
}
#define CHECK(c, id)  do { if (!(c)) { fprintf(stderr, "CHECK-FAILED %s\n", id); fflush(stderr); exit(97); } } while (0)
#define ASSUME(c)     do { if (!(c)) { fprintf(stderr, "ASSUME-FALSE\n"); exit(0); } } while (0)
#endif

static inline uint16_t in_u16(void) { uint16_t a = in_u8(); uint16_t b = in_u8(); return (uint16_t)(a | (b << 8)); }
static inline uint32_t in_u32(void) { uint32_t a = in_u16(); uint32_t b = in_u16(); return a | (b << 16); }
static inline uint64_t in_u64(void) { uint64_t a = in_u32(); uint64_t b = in_u32(); return a | (b << 32); }
static inline void in_bytes(unsigned char *p, unsigned n) { unsigned i; for (i = 0; i < n; i++) p[i] = in_u8(); }

/* assert-then-assume: a failed set-up step is reported once and not explored further */
#define REQUIRE(c, id) do { CHECK((c), id); ASSUME(c); } while (0)

/* allocation that never fails (allocation failure is outside every property) */
static inline void *xmalloc(size_t n)
{
	void *p = malloc(n ? n : 1);
	ASSUME(p != NULL);
	return p;
}

/* End-of-harness reachability witness: this assertion MUST be reported as
 * FAILED by CBMC (the driver checks it), otherwise the run is vacuous. */
#ifdef VERIF_CBMC
#ifndef NO_WITNESS
#define WITNESS_END()  __CPROVER_assert(0, "WITNESS.reach_end")
#else
#define WITNESS_END()
#endif
#else
#define WITNESS_END()
#endif

#endif
