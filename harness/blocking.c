/* blocking.c -- C20: eperftool's of_compute_blocking_struct follows RFC 5052 9.1.
 * L (object length), E (symbol size), B (max block size) are symbolic, 1 <= each < 2^BITS
 * (B restricted to [B_LO, B_HI] so that the space can be split across queries).
 */
#include "env.h"
#include <math.h>
/* the unit under test, with the headers it includes itself (eperftool.h) */
#include "applis/eperftool/blocking_struct.c"

int main(void)
{
	UINT32 L = in_u32(), E = in_u32(), B = in_u32();
	unsigned long long T, N, As, Al;
	of_blocking_struct_t bs;
	ASSUME(L >= 1 && L < (1u << BITS));
	ASSUME(E >= 1 && E < (1u << BITS));
	ASSUME(B >= B_LO && B <= B_HI && B >= 1);
	of_compute_blocking_struct(B, L, E, &bs);
	T = ((unsigned long long)L + E - 1) / E;
	N = (T + B - 1) / B;
	As = T / N;
	Al = (T + N - 1) / N;
	CHECK(bs.nb_blocks == N, "C20.N_is_ceil_T_over_B");
	CHECK(bs.A_small == As, "C20.A_small_is_floor_T_over_N");
	CHECK(bs.A_large == Al, "C20.A_large_is_ceil_T_over_N");
	CHECK(bs.A_large <= B, "C20.A_large_at_most_B");
	CHECK((unsigned long long)bs.I * bs.A_large + (unsigned long long)(bs.nb_blocks - bs.I) * bs.A_small == T, "C20.blocks_partition_T");
	CHECK(bs.I <= bs.nb_blocks, "C20.I_at_most_N");
	WITNESS_END();
	return 0;
}
